"""KF5 witness (public API only, fake monotonic clock): the backoff delay is fixed before the sleep handler / before_sleep
hook run; time spent inside them is not deducted, so the sleeper is asked for more than the time then remaining.

    PYTHONPATH=/repo/src /venv/bin/python findings/KF5-witness.py
"""
import time

T = [100.0]
time.monotonic = lambda: T[0]

from redress import ErrorClass, Retry, SleepDecision  # noqa: E402

asked = []


def op():
    T[0] += 2.5  # the attempt takes 2.5 s of a 5 s deadline
    raise ConnectionError("down")


def handler(ctx, sleep_s):
    T[0] += 2.75  # e.g. persists the retry intent somewhere slow
    return SleepDecision.SLEEP


def sleeper(s):
    asked.append((T[0] - 100.0, s))
    T[0] += s


r = Retry(classifier=lambda e: ErrorClass.TRANSIENT, strategy=lambda ctx: 2.25, deadline_s=5.0, max_attempts=3)
try:
    r.call(op, sleep=handler, sleeper=sleeper)
except ConnectionError:
    pass
for elapsed, s in asked:
    print(f"sleeper asked for {s}s at elapsed {elapsed}s of deadline_s=5.0 (remaining {5.0 - elapsed}s); run ended at elapsed {T[0] - 100.0}s")
assert all(s <= 5.0 - e for e, s in asked), "a backoff sleep longer than the time then remaining was requested"
