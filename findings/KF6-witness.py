"""KF6 witness (public API only): an on_attempt_end hook that raises once, right after the first attempt SUCCEEDED.

    PYTHONPATH=/repo/src /venv/bin/python findings/KF6-witness.py

call():    1 invocation, the hook's error propagates.
execute(): the error is processed as a failure of attempt 1: the operation is invoked AGAIN, the event stream is
           success, retry, success and the outcome carries the second value.
"""
from redress import ErrorClass, Retry

calls = []


def op():
    calls.append(1)
    return f"value-{len(calls)}"


n = [0]


def on_attempt_end(ctx):
    n[0] += 1
    if n[0] == 1:
        raise RuntimeError("audit sink down")


events = []
r = Retry(classifier=lambda e: ErrorClass.TRANSIENT, strategy=lambda c: 0.0, max_attempts=3, deadline_s=10)
out = r.execute(op, on_attempt_end=on_attempt_end, on_metric=lambda ev, a, s, t: events.append((ev, a)), sleeper=lambda s: None)
print("execute():", "ok" if out.ok else "failed", out.value, "attempts", out.attempts, "invocations", len(calls), events)
exec_invocations = len(calls)
calls.clear()
n[0] = 0
events.clear()
try:
    r.call(op, on_attempt_end=on_attempt_end, on_metric=lambda ev, a, s, t: events.append((ev, a)), sleeper=lambda s: None)
except RuntimeError as x:
    print("call():   raised", repr(x), "invocations", len(calls), events)
assert exec_invocations == len(calls), "call() and execute() performed different operation invocations for the same callback behaviour"
