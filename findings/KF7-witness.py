"""KF7 (C14): an abort raised by a backoff-phase callback ends the run without an `aborted` event.
Run: PYTHONPATH=/repo/src /venv/bin/python findings/KF7-witness.py   (exit 1 = the finding shows)"""
import sys

from redress import AbortRetryError, ErrorClass, Retry

events = []


def op():
    raise ConnectionError("down")


def interruptible_sleeper(s):
    raise AbortRetryError()


r = Retry(classifier=lambda e: ErrorClass.TRANSIENT, strategy=lambda c: 0.25, max_attempts=3, sleeper=interruptible_sleeper)
try:
    r.call(op, on_metric=lambda ev, a, s, t: events.append(ev))
    final = "returned"
except AbortRetryError:
    final = "AbortRetryError"
print("delivered:", final, "| metric events:", events)
sys.exit(1 if final == "AbortRetryError" and "aborted" not in events else 0)
