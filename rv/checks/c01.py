"""C01 - attempt caps (global, per-class, UNKNOWN, non-retryable); no carry-over between calls."""

from __future__ import annotations

from .. import gen, oracles as O, rig, tconc
from ..view import View
from . import common

JOBS = {"quick": 4, "thorough": 16}
KEEP_ALL = ("op", "classify", "rclassify", "strategy", "poll", "handler", "before_sleep", "sleep", "dsleep", "metric", "log", "astart", "aend")


def _stopper(v):
    """Which cap (if any) ended the run: used for coverage cells only."""
    t = v.all_terminals()
    if not t:
        return "none"
    return dict(t[-1][4]).get("stop_reason") or t[-1][1]


def _one(ctx, sc, entry, stats):
    recs, h, w = rig.run(sc, entry)
    ctx.inc("runs")
    ctx.inc("calls", len(recs))
    common.check_recs(ctx, sc, entry, recs, [O.o_caps], stats)
    for rec in recs:
        v = View(rec, sc)
        ctx.inc("op_events", v.nops)
        lf = v.last_failed()
        fam = "async" if entry.startswith("a") else "sync"
        ctx.cell("stop", _stopper(v), lf.cause if lf else "-", fam)
        # tight caps: the run stopped with >= 2 caps simultaneously reached
        if lf is not None:
            st, which = v.static_permit(lf)
            if st is False:
                caps = [w_ for w_ in which if w_ in ("perclass", "unknown", "global", "nonretry")]
                if caps:
                    ctx.add("nontrivial", [sc["cfg"]["max_attempts"], sc["cfg"]["max_unknown"], sorted(sc["cfg"]["per_class"].items()), [o[:2] for o in rec.env["outcomes"]], entry])
                if len(caps) >= 2:
                    ctx.inc("runs_with_two_caps_tight")
    return recs


class _E(Exception):
    def __init__(self, k):
        super().__init__(k)
        self.k = k


def overlapping_calls(ctx, rng, n):
    """Calls that OVERLAP on one policy object (a nested call made by the operation itself; two async calls
    interleaved on one AsyncRetry): each call keeps its own counters, so each is still bound by the caps."""
    from redress import AsyncRetry, ErrorClass, Policy, Retry, RetryPolicy

    from .. import env

    for i in range(n):
        L = rng.randint(0, 2)
        mu = rng.choice([None, 0, 1])
        k_outer = rng.choice(["TRANSIENT", "UNKNOWN", "SERVER_ERROR"])
        kw = dict(classifier=lambda e: ErrorClass[e.k], strategy=lambda c: 0.0, per_class_max_attempts={ErrorClass[k_outer]: L} if k_outer != "UNKNOWN" or rng.random() < 0.5 else {},
                  max_unknown_attempts=mu, max_attempts=8, deadline_s=1000.0)
        limit = kw["per_class_max_attempts"].get(ErrorClass[k_outer])
        if k_outer == "UNKNOWN" and mu is not None:
            limit = mu if limit is None else min(limit, mu)
        if limit is None:
            continue
        desc = {"per_class": {k_outer: L}, "max_unknown": mu, "outer_class": k_outer}
        world = env.World()
        with env.active(world):
            kind = rng.choice(["retry", "policy", "rp"])
            pol = Retry(**kw) if kind == "retry" else Policy(retry=Retry(**kw)) if kind == "policy" else RetryPolicy(**kw)
            outer_calls = [0]
            inner_state = [0]

            def inner():
                inner_state[0] += 1
                if inner_state[0] % 2:
                    raise _E(rng.choice(["SERVER_ERROR", "TRANSIENT", "CONCURRENCY"]))
                return "inner-ok"

            def outer():
                outer_calls[0] += 1
                try:
                    pol.call(inner, sleeper=lambda s_: None)
                except _E:
                    pass
                raise _E(k_outer)

            try:
                pol.call(outer, sleeper=lambda s_: None)
            except _E:
                pass
            ctx.inc("overlap_nested_runs")
            ctx.inc("calls")
            if outer_calls[0] - 1 > limit:
                ctx.viol("cap-exceeded-under-overlapping-calls", f"[nested {kind}.call] outer call: {outer_calls[0] - 1} retries granted after {k_outer} failures, cap {limit} ({desc}); the operation made a nested call on the same policy object",
                         {"overlap": "nested", "desc": desc, "kind": kind})
            # two async calls interleaved on one AsyncRetry
            apol = AsyncRetry(**kw)
            counts = [0, 0]

            def mk(j):
                async def op():
                    counts[j] += 1
                    await env.Suspend("op")
                    raise _E(k_outer)

                async def sl(s_):
                    await env.Suspend("sleep")

                return apol.call(op, sleeper=sl)

            live = {0: mk(0), 1: mk(1)}
            while live:
                j = rng.choice(sorted(live))
                try:
                    live[j].send(None)
                except StopIteration:
                    del live[j]
                except _E:
                    del live[j]
            ctx.inc("overlap_async_runs")
            ctx.inc("calls", 2)
            for j in (0, 1):
                if counts[j] - 1 > limit:
                    ctx.viol("cap-exceeded-under-overlapping-calls", f"[two interleaved AsyncRetry.call] call {j}: {counts[j] - 1} retries granted after {k_outer} failures, cap {limit} ({desc})",
                             {"overlap": "async", "desc": desc})


def caps_by_retry_events(ctx, sc, entry):
    """The caps counted on the library's own `retry` events (each is a granted retry and names the failure's class): they bind
    also when a callback of the backoff phase fails in one particular attempt and execute() contains the error as one more failed
    attempt - an allowance already granted is not given back."""
    recs, h, w = rig.run(sc, entry)
    ctx.inc("runs")
    ctx.inc("calls", len(recs))
    cfg = sc["cfg"]
    for rec in recs:
        per = {}
        nops = 0
        for ev in rec.trace:
            if ev[0] == "op":
                nops += 1
            elif ev[0] == "metric" and ev[1] == "retry":
                k = dict(ev[4]).get("class")
                per[k] = per.get(k, 0) + 1
        ctx.inc("cap_accounts_checked")
        if rec.fault_fired:
            ctx.inc("cap_accounts_checked_after_a_contained_callback_error")
        if nops > cfg["max_attempts"]:
            ctx.viol("global-cap", f"[{entry} call#{rec.idx}] {nops} invocations, max_attempts={cfg['max_attempts']} (fault plan {sc.get('fault')})", common.payload(sc, entry, rec.idx))
            return
        for k, n in per.items():
            lim = (cfg.get("per_class") or {}).get(k)
            if k == "UNKNOWN" and cfg.get("max_unknown") is not None:
                lim = cfg["max_unknown"] if lim is None else min(lim, cfg["max_unknown"])
            if lim is not None and n > lim:
                ctx.viol("per-class-cap" if k != "UNKNOWN" else "unknown-cap", f"[{entry} call#{rec.idx}] {n} retries granted after {k} failures, cap {lim} (fault plan {sc.get('fault')})", common.payload(sc, entry, rec.idx))
                return


def work(ctx, tier):
    stats = {}
    rng = common.rng_for(ctx, "main")
    # 0. caps counted on retry events, with a backoff-phase callback failing in one particular attempt of execute()
    for k in range((800 if tier == "quick" else 16000) // ctx.nshards):
        sc = gen.rand_scenario(rng, max_attempts=(3, 7), p_special=0.0, p_budget=0.1, p_handler=0.5, p_abort=0.0, ncalls=(1, 2), placements=False)
        sc["cfg"]["per_class"] = {c: rng.randint(0, 2) for c in rng.sample(gen.RETRYABLE, rng.randint(1, 3))}
        sc["cfg"]["max_unknown"] = rng.choice([None, 1, 2])
        sc["place"]["hooks"] = rng.choice(["none", "call", "policy"])
        for c in sc["calls"]:
            pool = list(sc["cfg"]["per_class"]) * 2 + ["UNKNOWN"]
            c["outcomes"] = [[rng.choice(["exc", "res"]), rng.choice(pool), None] for _ in range(sc["cfg"]["max_attempts"] + 1)]
        if k % 4:
            cbs = ["sleeper", "sleeper", "handler"] + (["aend"] if sc["place"]["hooks"] != "none" else [])
            sc["fault"] = {"kind": "cb", "cb": rng.choice(cbs), "at": rng.choice([0, 0, 1, 2]), "exc": rng.choice(["RuntimeError", "ValueError", "OSError"])}
        for e in common.pick_entries(rng, rig.EXECUTE_ENTRIES if sc.get("fault") else rig.ENTRIES, 3):
            caps_by_retry_events(ctx, sc, e)
        ctx.inc("cap_account_scenarios")
    # 1. bounded-exhaustive small-scope sweep
    max_len = 3 if tier == "quick" else 4
    per = 2 if tier == "quick" else 4
    n = 0
    for i, sc in enumerate(gen.sweep_scenarios(max_len=max_len)):
        if i % ctx.nshards != ctx.shard:
            continue
        ents = [rig.ENTRIES[(i * 7 + j * 3) % len(rig.ENTRIES)] for j in range(per)]
        for e in set(ents):
            recs = _one(ctx, sc, e, stats)
            if n < 2 and ctx.shard == 0:
                ctx.sample({"scenario": {"cfg": sc["cfg"], "outcomes": sc["calls"][0]["outcomes"]}, **common.describe(recs[0], 12)})
            n += 1
        ctx.inc("sweep_scenarios")
    # 2. random scenarios, all features
    nrand = (6000 if tier == "quick" else 120000) // ctx.nshards * 1
    for k in range(nrand):
        sc = gen.rand_scenario(rng, p_special=0.03, specials=("abort",), ncalls=(1, 2), placements=(k % 3 == 0), p_exc_same=0.2, p_via_config=0.2, p_res_none=0.15, p_via_attrs=0.25, p_attempt_timeout=0.2)
        for e in common.pick_entries(rng, rig.ENTRIES, 3):
            _one(ctx, sc, e, stats)
        ctx.inc("random_scenarios")
    # 3. reuse vs fresh: no counter carries over between calls on one policy object
    nreuse = (1500 if tier == "quick" else 30000) // ctx.nshards
    for k in range(nreuse):
        sc = gen.rand_scenario(rng, p_budget=0.0, p_breaker=0.0, ncalls=(2, 4), p_abort=0.1, timing=(k % 2 == 0))
        for c in sc["calls"]:
            c["gap"] = 0.0
        e = rng.choice(rig.ENTRIES)
        recs = _one(ctx, sc, e, stats)
        for j in range(1, len(sc["calls"])):
            solo = dict(sc, calls=[sc["calls"][j]], poll=bool(sc.get("poll")) or any(c.get("abort_at") is not None for c in sc["calls"]))
            r2, _, _ = rig.run(solo, e)
            a = O.project(View(recs[j], sc), keep=KEEP_ALL, strip_place=False)
            b = O.project(View(r2[0], solo), keep=KEEP_ALL, strip_place=False)
            fa = O.canon_final(View(recs[j], sc))
            fb = O.canon_final(View(r2[0], solo))
            ctx.inc("reuse_pairs_compared")
            if a != b or fa != fb:
                d = next((x for x in range(min(len(a), len(b))) if a[x] != b[x]), min(len(a), len(b)))
                ctx.viol(
                    "state-carried-over-between-calls",
                    f"[{e}] call #{j} on a reused object differs from the same call on a fresh object at event {d}: {a[d:d + 2]} vs {b[d:d + 2]}; finals {fa} vs {fb}",
                    common.payload(sc, e, j, mode="reuse"),
                )
    overlapping_calls(ctx, rng, (400 if tier == "quick" else 8000) // ctx.nshards)
    # two threads on one policy object with per-class caps, incl. the very first failures a fresh object handles
    tconc.thread_slice(ctx, tier, common.rng_for(ctx, "threads"), ["caps", "identity"], budget=False, breaker=False, first_use=True, nprog=2)
    common.reconfig_slice(ctx, tier, common.rng_for(ctx, "reconfig"), lambda sc, e: _one(ctx, sc, e, stats))
    common.default_limits_slice(ctx, lambda sc, e: _one(ctx, sc, e, stats))
    common.long_run_slice(ctx, tier, common.rng_for(ctx, "long"), lambda sc, e: _one(ctx, sc, e, stats), horizons=(40, 90, 200))
    if tier != "quick":
        common.repo_suite_under_monitors(ctx, "caps")
    common.flush_stats(ctx, stats)


def conclude(ctx):
    cells = {k: v for k, v in ctx.cnt.items() if k.startswith("stop:")}
    need = ["MAX_ATTEMPTS_GLOBAL", "MAX_ATTEMPTS_PER_CLASS", "MAX_UNKNOWN_ATTEMPTS", "NON_RETRYABLE_CLASS"]
    floors = {}
    for r in need:
        for cause in ("exception", "result"):
            for fam in ("sync", "async"):
                floors[f"stop:{r}/{cause}/{fam}"] = (cells.get(f"stop:{r}/{cause}/{fam}", 0), 20)
    floors["reuse_pairs_compared"] = (ctx.cnt["reuse_pairs_compared"], 200)
    floors["runs_with_two_caps_tight"] = (ctx.cnt["runs_with_two_caps_tight"], 50)
    floors["overlap_nested_runs"] = (ctx.cnt["overlap_nested_runs"], 50)
    floors["overlap_async_runs"] = (ctx.cnt["overlap_async_runs"], 50)
    floors["schedules_at_level:lines"] = (ctx.cnt["schedules_at_level:lines"], 100)
    floors["reconfigured_scenarios"] = (ctx.cnt["reconfigured_scenarios"], 80)
    floors["cap_accounts_checked_after_a_contained_callback_error"] = (ctx.cnt["cap_accounts_checked_after_a_contained_callback_error"], 200)
    return dict(
        rule=(
            "bounded-exhaustive sweep (every outcome string up to length L over {ok, exc/res x TRANSIENT/UNKNOWN/PERMANENT} x 128 cap "
            "configurations, entries rotated) + seeded random scenarios over all 20 entry points + reuse-vs-fresh differential; "
            "+ caps re-counted on the `retry` events of runs in which a sleeper / sleep handler / attempt-end hook fails in one particular attempt of execute(); "
            "a run is non-trivial when it was stopped by a cap (global/per-class/UNKNOWN/non-retryable); distinct = distinct (caps, outcome script, entry)"
        ),
        evaluations=ctx.cnt["calls"],
        nontrivial=len(ctx.sets["nontrivial"]),
        floors=floors,
        assumptions=common.ASSUME_COMMON + ["failure classes are the scripted ones: the classifier stub returns the class the script names"],
        extra={"sweep_max_len": 3 if ctx.tier == "quick" else 4},
        exhaustive=False,
    )


def replay(data):
    p = data["payload"]
    if "tspec" in p:
        return tconc.replay(p)
    if "overlap" in p:
        print("overlapping-call cases are generated from the seed; re-run `./check C01 --tier quick --seed", data.get("seed"), "`;", p)
        return 1
    if p.get("mode") == "reuse":
        sc, e, j = p["scenario"], p["entry"], p["call"]
        recs, _, _ = rig.run(sc, e)
        solo = dict(sc, calls=[sc["calls"][j]], poll=bool(sc.get("poll")) or any(c.get("abort_at") is not None for c in sc["calls"]))
        r2, _, _ = rig.run(solo, e)
        a = O.project(View(recs[j], sc), keep=KEEP_ALL, strip_place=False)
        b = O.project(View(r2[0], solo), keep=KEEP_ALL, strip_place=False)
        for x, y in zip(a, b):
            print(" ", "==" if x == y else "!=", x, "|", y)
        bad = a != b or O.canon_final(View(recs[j], sc)) != O.canon_final(View(r2[0], solo))
        print("replay:", "violation reproduced" if bad else "no violation on this tree")
        return 1 if bad else 0
    if p["scenario"].get("fault") and p["scenario"]["fault"].get("kind") == "cb":
        import collections

        class C:
            cnt = collections.Counter()
            bad = []

            def inc(self, *a):
                pass

            def viol(self, k, m, pl):
                self.bad.append(m)

        c = C()
        caps_by_retry_events(c, p["scenario"], p["entry"])
        for m in c.bad:
            print("  !!", m)
        print("replay:", "violation reproduced" if c.bad else "no violation on this tree")
        return 1 if c.bad else 0
    return common.replay_trace(data, [O.o_caps])
