"""C02 - deadline envelope on the virtual monotonic clock; wall-clock jumps have no influence."""

from __future__ import annotations

from .. import gen, oracles as O, rig, tconc
from ..view import TOL, View
from . import common

JOBS = {"quick": 4, "thorough": 16}
KEEP = ("op", "classify", "rclassify", "strategy", "poll", "handler", "before_sleep", "sleep", "dsleep", "metric", "log", "budget", "astart", "aend")
WALL_MODES = ["jump", "back", "fwd", "frozen"]


def _one(ctx, sc, entry, stats, rng, sample=False):
    m1 = rng.choice(WALL_MODES)
    jseed = rng.randrange(1 << 30)
    if sc["cfg"].get("builtin_strategies"):
        import random as _random

        _random.seed(jseed)  # the library's jittered strategies draw from the global generator: same draws in both runs of the pair
    recs, h, w = rig.run(sc, entry, wall_seed=rng.randrange(1 << 30), wall_mode=m1)
    ctx.inc("runs")
    ctx.inc("calls", len(recs))
    ctx.inc("wall_clock_reads_by_library", w.hits["wall"])
    ctx.inc("monotonic_clock_reads", w.hits["mono"])
    common.check_recs(ctx, sc, entry, recs, [O.o_envelope], stats)
    for rec in recs:
        v = View(rec, sc)
        dl = v.deadline
        req = [e for e in rec.trace if e[0] == "sleep-req"]
        if req:
            # sleepers that hand back an awaitable: what the library REQUESTS counts, whether or not it then waits for it
            ctx.inc("sleep_requests_to_awaitable_returning_sleepers", len(req))
            tot = sum(e[2] for e in req if isinstance(e[2], (int, float)) and e[2] == e[2])
            if tot > dl + TOL:
                ctx.viol("total-sleep-exceeds-deadline", f"[{entry} call#{rec.idx}] the library asked the sleeper for {[e[2] for e in req]} = {tot} s in total; deadline_s={dl}", common.payload(sc, entry, rec.idx))
        for s in v.segs:
            if s.kind in ("exc", "res"):
                d = s.t_fail - dl
                if d == 0:
                    ctx.inc("boundary:failure-exactly-at-deadline")
                elif 0 < abs(d) <= TOL:
                    ctx.inc("boundary:failure-within-1us-of-deadline")
                elif abs(d) <= 2.0 / 64:
                    ctx.inc("boundary:failure-one-grid-step-from-deadline")
                ta = v.sleep_end_time(s)
                if ta is not None:
                    if ta == dl:
                        ctx.inc("boundary:sleep-ends-exactly-at-deadline")
                    elif ta > dl:
                        ctx.inc("sleep-overshoots-deadline")
            for st in s.strategies:
                val = st[8]
                if isinstance(val, (int, float)) and val == val and val > dl - s.t_fail:
                    ctx.inc("clamp_applied")
        for s in v.segs[1:]:
            ctx.mx("max_attempt_start_past_deadline_s", max(0.0, s.t_op - dl))
        t = v.all_terminals()
        if t and dict(t[-1][4]).get("stop_reason") == "DEADLINE_EXCEEDED":
            ctx.inc("runs_ended_by_deadline")
            ctx.add_hash("nontrivial", [sc["cfg"]["deadline_s"], rec.env["durations"], rec.env["overshoot"], [repr(x) for x in rec.env["strat_values"]], entry])
    # differential: same scenario, different hostile wall clock -> identical trace
    m2 = rng.choice([m for m in WALL_MODES if m != m1])
    if sc["cfg"].get("builtin_strategies"):
        _random.seed(jseed)
    recs2, _, w2 = rig.run(sc, entry, wall_seed=rng.randrange(1 << 30), wall_mode=m2)
    ctx.inc("wall_differentials")
    for a, b in zip(recs, recs2):
        pa = O.project(View(a, sc), keep=KEEP, strip_place=False)
        pb = O.project(View(b, sc), keep=KEEP, strip_place=False)
        fa, fb = O.canon_final(View(a, sc)), O.canon_final(View(b, sc))
        if pa != pb or fa != fb:
            d = next((x for x in range(min(len(pa), len(pb))) if pa[x] != pb[x]), min(len(pa), len(pb)))
            ctx.viol("wall-clock-influences-run", f"[{entry}] wall modes {m1} vs {m2}: traces differ at event {d}: {pa[d:d + 1]} vs {pb[d:d + 1]}; finals {fa} vs {fb}", common.payload(sc, entry, a.idx, mode="wall", wall=[m1, m2]))
    if sample:
        ctx.sample({"scenario": {"deadline_s": sc["cfg"]["deadline_s"], "call0": sc["calls"][0]}, **common.describe(recs[0], 30)})


def work(ctx, tier):
    stats = {}
    rng = common.rng_for(ctx, "main")
    nb = (9000 if tier == "quick" else 300000) // ctx.nshards
    for k, sc in enumerate(gen.boundary_timing_scenarios(rng, nb)):
        if k % 3 == 0:
            sc["via_config"] = True
        if k % 4 == 1:
            # strategy object whose record_failure() feedback takes time: the remaining time must be measured afterwards
            sc["cfg"]["strategy_objects"] = ["default"]
            sc["calls"][0]["rf_dur"] = [rng.choice([0.0, gen.G, 0.25, 0.5]) for _ in range(4)]
        for e in common.pick_entries(rng, rig.ENTRIES, 2):
            _one(ctx, sc, e, stats, rng, sample=(k < 2 and ctx.shard == 0))
        ctx.inc("boundary_scenarios")
    n = (5000 if tier == "quick" else 150000) // ctx.nshards
    for k in range(n):
        sc = gen.rand_scenario(rng, p_special=0.02, p_budget=0.2, p_handler=0.2, p_abort=0.1, ncalls=(1, 2), p_no_sleeper=0.3, p_strategy_objects=0.4, rf_time=True, p_via_config=0.3, p_via_attrs=0.25, p_attempt_timeout=0.15, exotic_callables=True)
        if k % 6 == 2:
            # a strategy that answers None on a later retry (the library rejects that): no sleep may be requested on its strength,
            # let alone one that no longer fits the remaining time
            for c in sc["calls"]:
                sv = c["strat_values"]
                for j in range(1, len(sv)):
                    if rng.random() < 0.5:
                        sv[j] = "none"
                c["strat_values"] = [0.5 if (j == 0 and isinstance(x, (int, float)) and x == 0) else x for j, x in enumerate(sv)]
            ctx.inc("scenarios_with_a_strategy_answering_none")
            if k % 12 == 2:
                # ... directed: a first delay that takes most of the deadline, then None: whatever the library makes of None, it is not
                # "the previous delay once more"
                D = rng.choice([1.0, 2.0, 4.0])
                sc["cfg"].update(deadline_s=D, max_attempts=max(3, sc["cfg"]["max_attempts"]), budget=None, per_class={}, max_unknown=None, default_strategy=True, class_strategies=[], legacy=[])
                sc["cfg"].pop("omit_limits", None)
                for c in sc["calls"]:
                    n_ = max(3, len(c["outcomes"]))
                    c["outcomes"] = [["exc", "TRANSIENT", None] for _ in range(n_)]
                    c["strat_values"] = [0.625 * D] + ["none"] * (n_ - 1)
                    c["durations"] = [0.0] * n_
                    c["overshoot"] = [0.0] * n_
                    c["handler"] = None
                    c["abort_at"] = None
                sc["place"]["handler"] = "none"
        if k % 6 == 1:
            # the library's own strategy factories, registered as they are, with a base delay of the order of the deadline: the delay
            # the engine requests is the factory's answer clamped to the remaining time, whoever wrote the strategy
            D = sc["cfg"]["deadline_s"]
            D = D if D < 100 else 4.0
            base = D * rng.choice([0.25, 0.5, 1.0, 3.0])
            names = (["default"] if sc["cfg"].get("default_strategy", True) else []) + list(sc["cfg"].get("class_strategies", ()))
            names = [x for x in names if x not in sc["cfg"].get("legacy", ()) and x not in sc["cfg"].get("strategy_objects", ())]
            if names:
                sc["cfg"]["builtin_strategies"] = {x: (rng.choice(["equal_jitter", "decorrelated_jitter", "token_backoff"]), base, base * 4.0) for x in names if rng.random() < 0.8}
                ctx.inc("scenarios_with_builtin_strategy_factories", 1 if sc["cfg"]["builtin_strategies"] else 0)
        if k % 6 == 4:
            # the abort predicate's first evaluation - before attempt 1 - takes time: the envelope is measured from the start of the call
            sc["poll"] = True
            D = sc["cfg"]["deadline_s"]
            for c in sc["calls"]:
                c["preflight_poll_dur"] = rng.choice([0.25, 0.5, 1.0, D / 2.0 if D < 100 else 0.5])
            ctx.inc("scenarios_with_a_slow_preflight_poll")
        for e in common.pick_entries(rng, rig.ENTRIES, 2):
            _one(ctx, sc, e, stats, rng)
        ctx.inc("random_scenarios")
    common.crossing_slice(ctx, tier, common.rng_for(ctx, "crossing"), lambda sc, e: _one(ctx, sc, e, stats, rng))
    common.reconfig_slice(ctx, tier, common.rng_for(ctx, "reconfig"), lambda sc, e: _one(ctx, sc, e, stats, rng))
    common.default_limits_slice(ctx, lambda sc, e: _one(ctx, sc, e, stats, rng))
    # async calls overlapping on ONE policy object, each with its own deadline measured from its own start (another task's work
    # may carry the clock forward at any suspension point)
    tconc.thread_slice(ctx, tier, common.rng_for(ctx, "tasks"), ["envelope"], budget=False, breaker=False, tasks=True, nprog=4 if tier == "quick" else None)
    if ctx.shard == 0:
        from . import hang

        hang.entry_behind_an_abandoned_attempt(ctx)
    common.flush_stats(ctx, stats)


def conclude(ctx):
    floors = {
        "runs_ended_by_deadline": (ctx.cnt["runs_ended_by_deadline"], 300),
        "boundary:failure-exactly-at-deadline": (ctx.cnt["boundary:failure-exactly-at-deadline"], 100),
        "boundary:failure-within-1us-of-deadline": (ctx.cnt["boundary:failure-within-1us-of-deadline"], 50),
        "boundary:sleep-ends-exactly-at-deadline": (ctx.cnt["boundary:sleep-ends-exactly-at-deadline"], 50),
        "sleep-overshoots-deadline": (ctx.cnt["sleep-overshoots-deadline"], 100),
        "clamp_applied": (ctx.cnt["clamp_applied"], 300),
        "monotonic_clock_reads": (ctx.cnt["monotonic_clock_reads"], 1000),
        "wall_differentials": (ctx.cnt["wall_differentials"], 1000),
    }
    common.crossing_floors(ctx, floors)
    floors["hung_attempt_deadline_runs"] = (ctx.cnt["hung_attempt_deadline_runs"], 1)
    floors["overlap_schedules_run"] = (ctx.cnt["overlap_schedules_run"], 100)
    floors["reconfigured_scenarios"] = (ctx.cnt["reconfigured_scenarios"], 80)

    return dict(
        rule=(
            "deadline-boundary scenarios (attempt ending exactly at / one grid step or 0.3/0.7/3 us / 1 ms around the deadline; strategy asking exactly/more than the remainder; "
            "sleeper overshoot) + random timing scenarios + the clock crossing the deadline inside a sleep handler / before_sleep hook / record_failure() + the deadline reassigned between two calls on one object, "
            "every run repeated under a second hostile wall clock; one real-time run in which a timed-out attempt keeps running until after the deadline (operation entry judged causally); non-trivial = run ended by DEADLINE_EXCEEDED; "
            "distinct = distinct (deadline, durations, overshoots, strategy values, entry)"
        ),
        evaluations=ctx.cnt["runs"] + ctx.cnt["wall_differentials"],
        nontrivial=len(ctx.sets["nontrivial"]),
        floors=floors,
        assumptions=common.ASSUME_COMMON + [
            "virtual time advances only inside the scripted operation and the sleeper, so the instant the engine last read the clock before an attempt equals the instant the operation is invoked",
            "a regression measuring the deadline with datetime.now() would not be seen by the wall-clock differential (not interposable)",
        ],
        extra={"wall_clock_reads_by_library": ctx.cnt["wall_clock_reads_by_library"]},
        exhaustive=False,
    )


def replay(data):
    p = data["payload"]
    if "tspec" in p:
        return tconc.replay(p)
    if "hang" in p:
        import collections

        from . import hang

        class C:
            cnt = collections.Counter()
            bad = []

            def inc(self, *a):
                pass

            def inconclusive_because(self, m):
                print("  ??", m)

            def viol(self, k, m, pl):
                self.bad.append(m)

        c = C()
        hang.entry_behind_an_abandoned_attempt(c)
        for m in c.bad:
            print("  !!", m)
        print("replay:", "violation reproduced" if c.bad else "no violation on this tree")
        return 1 if c.bad else 0
    if p.get("mode") == "wall":
        sc, e = p["scenario"], p["entry"]
        r1, _, _ = rig.run(sc, e, wall_seed=1, wall_mode=p["wall"][0])
        r2, _, _ = rig.run(sc, e, wall_seed=2, wall_mode=p["wall"][1])
        bad = False
        for a, b in zip(r1, r2):
            pa = O.project(View(a, sc), keep=KEEP, strip_place=False)
            pb = O.project(View(b, sc), keep=KEEP, strip_place=False)
            for x, y in zip(pa, pb):
                print(" ", "==" if x == y else "!=", x, "|", y)
            bad |= pa != pb
        print("replay:", "violation reproduced" if bad else "no violation on this tree")
        return 1 if bad else 0
    return common.replay_trace(data, [O.o_envelope])
