"""C03 - retry exactly when permitted: no premature give-up, no wasted backoff, stop reason holds."""

from __future__ import annotations

from .. import gen, oracles as O, rig, tconc
from ..view import View
from . import common

JOBS = {"quick": 4, "thorough": 16}
CONJUNCTS_FALSE = ["nonretry", "nostrategy", "perclass", "unknown", "global", "deadline", "abort-requested"]
DYNAMIC = ["abort", "budget", "handler-defer", "handler-abort", "deadline-after-sleep", "permitted"]


def _one(ctx, sc, entry, stats, sample=False):
    recs, h, w = rig.run(sc, entry)
    ctx.inc("runs")
    ctx.inc("calls", len(recs))
    before = sum(v for k, v in stats.items() if k.startswith("static_"))
    common.check_recs(ctx, sc, entry, recs, [O.o_permit], stats)
    after = sum(v for k, v in stats.items() if k.startswith("static_"))
    if after > before:
        ctx.add_hash("nontrivial", [sc["cfg"], sc["calls"], sc["place"], entry])
        ctx.inc("failed_attempt_segments", after - before)
    if sample:
        ctx.sample({"scenario": {"cfg": sc["cfg"], "call0": sc["calls"][0]}, **common.describe(recs[0], 30)})


def abort_from_the_sleeper(ctx, sc, entry):
    """'No abort is requested' has a second spelling besides abort_if: an interruptible sleeper (or a sleep handler) that raises
    AbortRetryError during the backoff.  Once that has happened the operation is not invoked again and nothing further is slept."""
    recs, h, w = rig.run(sc, entry)
    ctx.inc("runs")
    ctx.inc("calls", len(recs))
    for rec in recs:
        tr = rec.trace
        for i, ev in enumerate(tr):
            if ev[0] == "fault" and ev[2] == "AbortRetryError":
                ctx.inc("aborts_requested_from_inside_the_backoff")
                after = [z for z in tr[i + 1:] if z[0] in ("op", "sleep", "dsleep", "budget", "strategy")]
                if after:
                    ctx.viol("work-after-abort-requested-by-a-backoff-callback", f"[{entry} call#{rec.idx}] {ev[1]} raised AbortRetryError; afterwards: {after[:3]}", common.payload(sc, entry, rec.idx))
                break


def work(ctx, tier):
    stats = {}
    rng = common.rng_for(ctx, "main")
    for k in range((400 if tier == "quick" else 8000) // ctx.nshards):
        sc = gen.rand_scenario(rng, max_attempts=(2, 5), p_special=0.0, p_budget=0.3, p_handler=0.5, p_abort=0.0, ncalls=(1, 2), placements=(k % 2 == 0))
        sc["fault"] = {"kind": "cb", "cb": rng.choice(["sleeper", "sleeper", "handler"]), "at": rng.choice([0, 0, 1]), "exc": "AbortRetryError"}
        if sc["place"].get("sleeper") == "none":
            sc["place"]["sleeper"] = "call"
        for e in common.pick_entries(rng, rig.ENTRIES, 3):
            abort_from_the_sleeper(ctx, sc, e)
        ctx.inc("abort_from_backoff_scenarios")
    max_len = 3 if tier == "quick" else 4
    for i, sc in enumerate(gen.sweep_scenarios(max_len=max_len)):
        if i % ctx.nshards != ctx.shard:
            continue
        e = rig.ENTRIES[(i * 7) % len(rig.ENTRIES)]
        _one(ctx, sc, e, stats)
        if tier != "quick":
            _one(ctx, sc, rig.ENTRIES[(i * 7 + 11) % len(rig.ENTRIES)], stats)
        ctx.inc("sweep_scenarios")
    n = (8000 if tier == "quick" else 200000) // ctx.nshards
    for k in range(n):
        sc = gen.rand_scenario(rng, p_special=0.04, p_attempt_timeout=0.12, specials=("abort", "timeout", "nested_open"), p_budget=0.45, p_handler=0.35, p_abort=0.3, placements=(k % 4 == 0), p_abort_flag=0.25, p_exc_same=0.15, p_via_config=0.2, p_res_none=0.15, p_empty_table=0.06, falsy_objects=True, p_strategy_objects=0.3, poll_kinds=True, slow_hooks=(k % 3 == 1), rf_time=True, p_via_attrs=0.25)
        for e in common.pick_entries(rng, rig.ENTRIES, 3):
            _one(ctx, sc, e, stats, sample=(k < 2 and ctx.shard == 0 and e.endswith("call")))
        ctx.inc("random_scenarios")
    # several calls on one policy object and one budget while tokens age out one by one between the calls (fill level = a moving target)
    for k in range((700 if tier == "quick" else 20000) // ctx.nshards):
        sc = gen.rand_scenario(rng, max_attempts=(2, 4), p_special=0.0, p_budget=1.0, p_handler=0.15, p_abort=0.05, ncalls=(3, 5), timing=False, p_strategy_objects=0.2)
        w_ = rng.choice([1.0, 10.0])
        sc["cfg"]["budget"] = {"max": rng.randint(1, 2), "window": w_, "prefill": 0}
        sc["cfg"]["max_unknown"] = None
        sc["cfg"]["per_class"] = {}
        for c in sc["calls"]:
            c["gap"] = rng.choice([0.0, gen.G, w_ / 2, w_ - gen.G, w_, w_ + gen.G, w_ * 0.9])
            c["outcomes"] = [[rng.choice(["exc", "res"]), rng.choice(gen.RETRYABLE[:4]), None] for _ in range(2)] + [["ok"]]
            c["durations"] = [0.0] * 3
            c["overshoot"] = [0.0] * 3
            c["strat_values"] = [rng.choice([0.0, gen.G])] * 3
        for e in common.pick_entries(rng, rig.ENTRIES, 2):
            _one(ctx, sc, e, stats)
        ctx.inc("aging_budget_scenarios")
    nb = (3000 if tier == "quick" else 60000) // ctx.nshards
    for sc in gen.boundary_timing_scenarios(rng, nb):
        for e in common.pick_entries(rng, rig.ENTRIES, 2):
            _one(ctx, sc, e, stats)
        ctx.inc("boundary_scenarios")
    # budget fill levels 0..max x abort at every poll index (systematic)
    for mr in range(0, 4):
        for prefill in range(0, mr + 1):
            for abort_at in [None] + list(range(0, 8)):
                if (mr * 100 + prefill * 10 + (abort_at or 0)) % ctx.nshards != ctx.shard:
                    continue
                cfg = gen.mk_cfg(max_attempts=4, budget={"max": mr, "window": 1000.0, "prefill": prefill}, max_unknown=None)
                outs = [["exc", "TRANSIENT", None], ["res", "SERVER_ERROR", None], ["exc", "CONCURRENCY", None], ["exc", "TRANSIENT", None], ["ok"]]
                sc = {"cfg": cfg, "place": gen.default_place(), "bs_kind": "sync", "sleeper_kind": "async", "timeline": False, "poll": True,
                      "calls": [gen.mk_call(outs, abort_at=abort_at)], "fault": None}
                for e in ("retry.call", "aretry.execute", "policy.execute", "arp.call"):
                    _one(ctx, sc, e, stats)
                ctx.inc("systematic_budget_abort_scenarios")
    # abort flag raised while attempt k is in flight (sticky), every k, budget present
    for k in range(1, 5):
        for outs in ([["exc", "TRANSIENT", None]] * 4 + [["ok"]], [["res", "SERVER_ERROR", None]] * 4 + [["ok"]], [["exc", "TRANSIENT", None], ["res", "CONCURRENCY", None], ["exc", "RATE_LIMIT", 0.5], ["res", "TRANSIENT", None], ["ok"]]):
            if k % ctx.nshards != ctx.shard % 4 and ctx.nshards > 1 and False:
                continue
            cfg = gen.mk_cfg(max_attempts=5, budget={"max": 10, "window": 1000.0, "prefill": 0}, max_unknown=None, use_classification=True)
            call = gen.mk_call([list(o) for o in outs])
            call["abort_after_op"] = k
            sc = {"cfg": cfg, "place": gen.default_place(), "bs_kind": "sync", "sleeper_kind": "async", "timeline": False, "poll": True, "calls": [call], "fault": None}
            for e in rig.ENTRIES:
                if (hash(e) + k) % ctx.nshards == ctx.shard:
                    _one(ctx, sc, e, stats)
            ctx.inc("systematic_abort_flag_scenarios")
    common.crossing_slice(ctx, tier, common.rng_for(ctx, "crossing"), lambda sc, e: _one(ctx, sc, e, stats))
    common.default_limits_slice(ctx, lambda sc, e: _one(ctx, sc, e, stats))
    common.reconfig_slice(ctx, tier, common.rng_for(ctx, "reconfig"), lambda sc, e: _one(ctx, sc, e, stats))
    # whole sync calls racing in threads on one budget: a retry needs a token granted to THAT call, a refusal must be reported
    tconc.thread_slice(ctx, tier, common.rng_for(ctx, "threads"), ["tokens"], budget=True, breaker=False)
    if ctx.shard == 0:
        from . import hang

        hang.hung_attempt_runs(ctx, "C03")
    common.flush_stats(ctx, stats)


def conclude(ctx):
    floors = {
        "aborts_requested_from_inside_the_backoff": (ctx.cnt["aborts_requested_from_inside_the_backoff"], 100),}
    for c in CONJUNCTS_FALSE:
        floors[f"only-false:{c}"] = (ctx.cnt.get(f"static_false:{c}", 0), 30)
    for d in DYNAMIC:
        floors[f"static-true:{d}"] = (ctx.cnt.get(f"static_true:{d}", 0), 30)
    floors["hung_attempt_runs"] = (ctx.cnt["hung_attempt_runs"], 6)
    common.crossing_floors(ctx, floors)
    floors["reconfigured_scenarios"] = (ctx.cnt["reconfigured_scenarios"], 80)
    floors["aging_budget_scenarios"] = (ctx.cnt["aging_budget_scenarios"], 100)
    floors.update(tconc.floors(ctx))
    return dict(
        rule=(
            "sweep of outcome strings x cap grids + random scenarios (budgets, abort polls, handlers) + deadline-boundary scenarios + systematic "
            "budget-fill x abort-index grid; every failed attempt is one evaluation of the biconditional; a scenario run is non-trivial when it "
            "contains at least one failed attempt on which the predicate was evaluated; distinct = distinct (config, script, placement, entry) hashes; "
            "cells static_false:<c> count segments where <c> was the ONLY false static conjunct, static_true:<d> where the static part held and <d> decided; "
            "budget_exhausted is justified by the budget's own level at that instant (a refused consume() or an empty window, however the engine asked)" + tconc.RULE
        ),
        evaluations=ctx.cnt["calls"],
        nontrivial=len(ctx.sets["nontrivial"]),
        floors=floors,
        assumptions=common.ASSUME_COMMON + ["the budget's answer is taken as observed at the spy (C10 checks its correctness)", "when several stop conditions hold any of them is accepted as the reported reason"],
        exhaustive=False,
    )


def replay(data):
    if "tspec" in data["payload"]:
        return tconc.replay(data["payload"])
    if data.get("key") == "work-after-abort-requested-by-a-backoff-callback":
        return common.replay_with(data, abort_from_the_sleeper)
    return common.replay_trace(data, [O.o_permit])
