"""C04 - call() surfaces exactly the last attempt's value or exception."""

from __future__ import annotations

from .. import gen, oracles as O, rig, tconc
from ..view import View
from . import common

JOBS = {"quick": 4, "thorough": 16}


def _one(ctx, sc, entry, stats, sample=False):
    recs, h, w = rig.run(sc, entry)
    ctx.inc("runs")
    ctx.inc("calls", len(recs))
    common.check_recs(ctx, sc, entry, recs, [O.o_surface], stats)
    for rec in recs:
        # once the run has reported why retries stopped (a terminal event other than `aborted`), what call() surfaces is that stop:
        # a shutdown flag that goes up afterwards comes too late to turn it into an abort
        terms = [e_[1] for e_ in rec.trace if e_[0] == "metric" and e_[1] in ("permanent_fail", "deadline_exceeded", "max_attempts_exceeded", "max_unknown_attempts_exceeded", "no_strategy_configured", "budget_exhausted", "success")]
        if terms and rec.final[0] == "raise" and type(rec.final[1]).__name__ == "AbortRetryError" and rec.env.get("abort_after_terminal"):
            ctx.viol("stopped-run-surfaced-as-abort", f"[{entry} call#{rec.idx}] the run had reported `{terms[0]}`; the abort flag went up only then, yet call() raised AbortRetryError instead of surfacing that stop", common.payload(sc, entry, rec.idx))
            continue
        v = View(rec, sc)
        how, s = O.run_ending(v)
        prev = v.segs[-2].cause if len(v.segs) >= 2 else "-"
        reason = O.last_terminal_reason(v) or "-"
        ctx.cell("end", how, reason, s.cause if s is not None and s.cause else "-", prev or "-")
        if how in ("stopped", "deferred", "value") and len(v.segs) >= 2:
            ctx.add_hash("nontrivial", [sc["cfg"], rec.env["outcomes"], rec.env.get("handler"), entry])
        if how == "stopped" and s.cause == "exception":
            ctx.inc("identity_checks:exception")
        elif how in ("stopped", "deferred"):
            ctx.inc("identity_checks:exhausted_error")
        elif how == "value":
            ctx.inc("identity_checks:value")
    if sample:
        ctx.sample({"scenario": {"cfg": sc["cfg"], "call0": sc["calls"][0]}, **common.describe(recs[0], 30)})


def first_success_is_final(ctx, sc, entry):
    """'the very object returned by the FIRST attempt that is classified as success': once an attempt's value has passed the result
    classifier, the operation is not invoked again and anything call() returns is that object - also when a callback that runs after
    the classification (on_attempt_end, a strategy's record_success) raises."""
    recs, h, w = rig.run(sc, entry)
    ctx.inc("runs")
    ctx.inc("calls", len(recs))
    for rec in recs:
        first = None
        nops = 0
        for ev in rec.trace:
            if ev[0] == "op":
                nops = ev[1]
                if first is not None:
                    ctx.viol("operation-invoked-after-a-success", f"[{entry} call#{rec.idx}] attempt {first + 1} was classified as success, yet the operation was invoked again (attempt {ev[1]}); fault plan {sc.get('fault')}", common.payload(sc, entry, rec.idx))
                    return
            elif ev[0] == "rclassify" and ev[2] is False and first is None:
                first = ev[1]
        if first is None:
            continue
        ctx.inc("first_success_checks")
        if rec.fault_fired:
            ctx.inc("first_success_checks_with_a_raising_callback")
        kind, val = rec.final
        if kind == "return" and val is not rec.objs.get(first):
            ctx.viol("returned-not-the-first-success", f"[{entry} call#{rec.idx}] attempt {first + 1} was the first success but call() returned {val!r}", common.payload(sc, entry, rec.idx))
            return


def work(ctx, tier):
    stats = {}
    rng = common.rng_for(ctx, "main")
    entries = rig.CALL_ENTRIES
    for k in range((500 if tier == "quick" else 10000) // ctx.nshards):
        sc = gen.rand_scenario(rng, max_attempts=(2, 5), p_special=0.0, p_budget=0.2, p_handler=0.2, p_abort=0.0, ncalls=(1, 2), placements=False, p_strategy_objects=0.5)
        sc["cfg"]["result_classifier"] = True
        sc["place"]["hooks"] = rng.choice(["call", "policy", "both"])
        for c in sc["calls"]:
            # make sure a success is reached, at a varying attempt, with more scripted successes after it
            n = rng.randint(0, sc["cfg"]["max_attempts"] - 1)
            c["outcomes"] = [[rng.choice(["exc", "res"]), rng.choice(gen.RETRYABLE), None] for _ in range(n)] + [["ok"], ["ok"], ["ok"]]
        if k % 4:
            sc["fault"] = {"kind": "cb", "cb": "aend", "at": rng.choice([0, 0, 1, 2, 3]), "exc": rng.choice(["RuntimeError", "ValueError", "KeyError", "OSError"])}
        for e in common.pick_entries(rng, entries, 3):
            first_success_is_final(ctx, sc, e)
        ctx.inc("first_success_scenarios")
    max_len = 3 if tier == "quick" else 4
    for i, sc in enumerate(gen.sweep_scenarios(max_len=max_len, stride=3 if tier == "quick" else 1)):
        if i % ctx.nshards != ctx.shard:
            continue
        _one(ctx, sc, entries[(i * 5) % len(entries)], stats)
        ctx.inc("sweep_scenarios")
    n = (9000 if tier == "quick" else 250000) // ctx.nshards
    for k in range(n):
        sc = gen.rand_scenario(rng, p_special=0.08, specials=("abort", "nested_exh", "nested_open", "cancel", "kbd", "sysexit", "timeout", "timeout"), p_attempt_timeout=0.15, p_budget=0.3, p_handler=0.4, p_abort=0.15, ncalls=(1, 2), placements=(k % 5 == 0), p_exc_same=0.2, p_via_config=0.2, p_res_none=0.15, p_breaker=0.25)
        if k % 6 == 4:
            # a shutdown flag that goes up as soon as the run has reported its terminal event: what call() surfaces is already decided
            sc["poll"] = True
            for c in sc["calls"]:
                c["abort_after_terminal"] = True
                c["abort_at"] = None
            ctx.inc("scenarios_with_abort_flag_raised_by_the_terminal_event")
        if k % 6 == 1:
            # an observability hook fails on one event (or on all): what call() surfaces is still the attempt's own object, whatever the
            # library does with the hook's failure (every sixth or so of these runs escalates warnings to errors)
            sc["fault"] = {"kind": "hook", "hook": rng.choice(["metric", "log"]), "at": rng.choice([0, 1, 2, "always"]), "exc": rng.choice(["RuntimeError", "HookBoom", "BadStrError", "BadReprError", "TypeError"])}
            ctx.inc("scenarios_with_a_failing_observability_hook")
        for e in common.pick_entries(rng, entries, 3):
            _one(ctx, sc, e, stats, sample=(k < 2 and ctx.shard == 0))
        ctx.inc("random_scenarios")
    common.crossing_slice(ctx, tier, common.rng_for(ctx, "crossing"), lambda sc, e: _one(ctx, sc, e, stats), entries=entries)
    common.unobserved_slice(ctx, tier, common.rng_for(ctx, "unobserved"), entries=entries)
    if ctx.shard == 0:
        from . import hang

        hang.hung_attempt_runs(ctx, "C04")
    # whole calls racing in threads on one policy object: each call surfaces an object of ITS OWN last attempt
    tconc.thread_slice(ctx, tier, common.rng_for(ctx, "threads"), ["identity"], budget=True, breaker=True)
    common.flush_stats(ctx, stats)


def conclude(ctx):
    cells = {k: v for k, v in ctx.cnt.items() if k.startswith("end:")}
    floors = {}
    reasons = ["MAX_ATTEMPTS_GLOBAL", "MAX_ATTEMPTS_PER_CLASS", "MAX_UNKNOWN_ATTEMPTS", "NON_RETRYABLE_CLASS", "DEADLINE_EXCEEDED", "NO_STRATEGY", "BUDGET_EXHAUSTED"]
    for r in reasons:
        for cause in ("exception", "result"):
            have = sum(v for k, v in cells.items() if k.startswith(f"end:stopped/{r}/{cause}/"))
            floors[f"stopped/{r}/{cause}"] = (have, 15)
    for cause in ("exception", "result"):
        floors[f"deferred/{cause}"] = (sum(v for k, v in cells.items() if k.startswith(f"end:deferred/SCHEDULED/{cause}/")), 15)
        # final cause differs from the previous attempt's cause (stale-field hazards)
        other = "result" if cause == "exception" else "exception"
        floors[f"final {cause} after previous {other}"] = (sum(v for k, v in cells.items() if k.startswith("end:stopped/") and k.endswith(f"/{cause}/{other}")), 30)
    floors["identity_checks:value"] = (ctx.cnt["identity_checks:value"], 200)
    floors["scenarios_with_abort_flag_raised_by_the_terminal_event"] = (ctx.cnt["scenarios_with_abort_flag_raised_by_the_terminal_event"], 100)
    floors["first_success_checks_with_a_raising_callback"] = (ctx.cnt["first_success_checks_with_a_raising_callback"], 100)
    floors.update(tconc.floors(ctx))
    floors["hung_attempt_runs"] = (ctx.cnt["hung_attempt_runs"], 6)
    floors["unobserved_run_pairs"] = (ctx.cnt["unobserved_run_pairs"], 300)
    floors["unobserved_failed_runs_compared"] = (ctx.cnt["unobserved_failed_runs_compared"], 100)
    return dict(
        rule=(
            "sweep of outcome strings x cap grids + random mixed exception/result histories (incl. special exceptions, handlers, budgets) over the 14 call-style entry points; "
            "non-trivial = run of >= 2 attempts ending in a value, a stop or a deferral (identity of the delivered object against unique scripted objects is decisive); "
            "cells end:<how>/<stop reason>/<final cause>/<previous attempt's cause>" + tconc.RULE
        ),
        evaluations=ctx.cnt["calls"],
        nontrivial=len(ctx.sets["nontrivial"]),
        floors=floors,
        assumptions=common.ASSUME_COMMON + ["every attempt's value / exception / result is a unique scripted object, so `is` identifies the attempt it came from"],
        exhaustive=False,
    )


def replay(data):
    if "hang" in data["payload"]:
        from . import hang

        return hang.replay_hung_attempt_runs("C04")
    if data.get("key") in ("operation-invoked-after-a-success", "returned-not-the-first-success"):
        import collections

        class C:
            cnt = collections.Counter()
            bad = []

            def inc(self, *a):
                pass

            def viol(self, k, m, pl):
                self.bad.append(m)

        c = C()
        first_success_is_final(c, data["payload"]["scenario"], data["payload"]["entry"])
        for m in c.bad:
            print("  !!", m)
        print("replay:", "violation reproduced" if c.bad else "no violation on this tree")
        return 1 if c.bad else 0
    if data.get("key") == "behaviour-depends-on-being-observed":
        return common.replay_with(data, common.judge_unobserved)
    return common.replay_trace(data, [O.o_surface])
