"""C04 - call() surfaces exactly the last attempt's value or exception."""

from __future__ import annotations

from .. import gen, oracles as O, rig, tconc
from ..view import View
from . import common

JOBS = {"quick": 4, "thorough": 16}


def _one(ctx, sc, entry, stats, sample=False):
    recs, h, w = rig.run(sc, entry)
    ctx.inc("runs")
    ctx.inc("calls", len(recs))
    common.check_recs(ctx, sc, entry, recs, [O.o_surface], stats)
    for rec in recs:
        v = View(rec, sc)
        how, s = O.run_ending(v)
        prev = v.segs[-2].cause if len(v.segs) >= 2 else "-"
        reason = O.last_terminal_reason(v) or "-"
        ctx.cell("end", how, reason, s.cause if s is not None and s.cause else "-", prev or "-")
        if how in ("stopped", "deferred", "value") and len(v.segs) >= 2:
            ctx.add_hash("nontrivial", [sc["cfg"], rec.env["outcomes"], rec.env.get("handler"), entry])
        if how == "stopped" and s.cause == "exception":
            ctx.inc("identity_checks:exception")
        elif how in ("stopped", "deferred"):
            ctx.inc("identity_checks:exhausted_error")
        elif how == "value":
            ctx.inc("identity_checks:value")
    if sample:
        ctx.sample({"scenario": {"cfg": sc["cfg"], "call0": sc["calls"][0]}, **common.describe(recs[0], 30)})


def work(ctx, tier):
    stats = {}
    rng = common.rng_for(ctx, "main")
    entries = rig.CALL_ENTRIES
    max_len = 3 if tier == "quick" else 4
    for i, sc in enumerate(gen.sweep_scenarios(max_len=max_len, stride=3 if tier == "quick" else 1)):
        if i % ctx.nshards != ctx.shard:
            continue
        _one(ctx, sc, entries[(i * 5) % len(entries)], stats)
        ctx.inc("sweep_scenarios")
    n = (9000 if tier == "quick" else 250000) // ctx.nshards
    for k in range(n):
        sc = gen.rand_scenario(rng, p_special=0.08, specials=("abort", "nested_exh", "nested_open", "cancel", "kbd", "sysexit", "timeout", "timeout"), p_attempt_timeout=0.15, p_budget=0.3, p_handler=0.4, p_abort=0.15, ncalls=(1, 2), placements=(k % 5 == 0), p_exc_same=0.2, p_via_config=0.2, p_res_none=0.15)
        for e in common.pick_entries(rng, entries, 3):
            _one(ctx, sc, e, stats, sample=(k < 2 and ctx.shard == 0))
        ctx.inc("random_scenarios")
    # whole calls racing in threads on one policy object: each call surfaces an object of ITS OWN last attempt
    tconc.thread_slice(ctx, tier, common.rng_for(ctx, "threads"), ["identity"], budget=True, breaker=True)
    common.flush_stats(ctx, stats)


def conclude(ctx):
    cells = {k: v for k, v in ctx.cnt.items() if k.startswith("end:")}
    floors = {}
    reasons = ["MAX_ATTEMPTS_GLOBAL", "MAX_ATTEMPTS_PER_CLASS", "MAX_UNKNOWN_ATTEMPTS", "NON_RETRYABLE_CLASS", "DEADLINE_EXCEEDED", "NO_STRATEGY", "BUDGET_EXHAUSTED"]
    for r in reasons:
        for cause in ("exception", "result"):
            have = sum(v for k, v in cells.items() if k.startswith(f"end:stopped/{r}/{cause}/"))
            floors[f"stopped/{r}/{cause}"] = (have, 15)
    for cause in ("exception", "result"):
        floors[f"deferred/{cause}"] = (sum(v for k, v in cells.items() if k.startswith(f"end:deferred/SCHEDULED/{cause}/")), 15)
        # final cause differs from the previous attempt's cause (stale-field hazards)
        other = "result" if cause == "exception" else "exception"
        floors[f"final {cause} after previous {other}"] = (sum(v for k, v in cells.items() if k.startswith("end:stopped/") and k.endswith(f"/{cause}/{other}")), 30)
    floors["identity_checks:value"] = (ctx.cnt["identity_checks:value"], 200)
    floors.update(tconc.floors(ctx))
    return dict(
        rule=(
            "sweep of outcome strings x cap grids + random mixed exception/result histories (incl. special exceptions, handlers, budgets) over the 14 call-style entry points; "
            "non-trivial = run of >= 2 attempts ending in a value, a stop or a deferral (identity of the delivered object against unique scripted objects is decisive); "
            "cells end:<how>/<stop reason>/<final cause>/<previous attempt's cause>" + tconc.RULE
        ),
        evaluations=ctx.cnt["calls"],
        nontrivial=len(ctx.sets["nontrivial"]),
        floors=floors,
        assumptions=common.ASSUME_COMMON + ["every attempt's value / exception / result is a unique scripted object, so `is` identifies the attempt it came from"],
        exhaustive=False,
    )


def replay(data):
    return common.replay_trace(data, [O.o_surface])
