"""C05 - backoff delay = the failure class's strategy output, sanitised and capped."""

from __future__ import annotations

from .. import gen, oracles as O, rig, tconc
from ..view import View
from . import common

JOBS = {"quick": 4, "thorough": 16}


def _one(ctx, sc, entry, stats, sample=False):
    recs, h, w = rig.run(sc, entry)
    ctx.inc("runs")
    ctx.inc("calls", len(recs))
    before = stats.get("strategy_calls_checked", 0)
    common.check_recs(ctx, sc, entry, recs, [O.o_delay], stats)
    if stats.get("strategy_calls_checked", 0) > before:
        ctx.add_hash("nontrivial", [sc["cfg"]["class_strategies"], sc["cfg"]["legacy"], sc["cfg"]["default_strategy"], sc["cfg"]["deadline_s"], [c["outcomes"] for c in sc["calls"]], [[repr(x) for x in c["strat_values"]] for c in sc["calls"]], entry])
    for rec in recs:
        for ev in rec.trace:
            if ev[0] == "strategy":
                ctx.cell("strategy_entry", "default" if ev[1] == "default" else "per-class", "legacy" if ev[5] == "n/a" else "context")
                ctx.cell("strategy_value", repr(ev[8]) if not isinstance(ev[8], float) or ev[8] != ev[8] or abs(ev[8]) in (float("inf"),) else ("neg" if ev[8] < 0 else "zero" if ev[8] == 0 else "huge" if ev[8] >= 1e6 else "pos"))
    if sample:
        ctx.sample({"scenario": {"cfg": sc["cfg"], "call0": sc["calls"][0]}, **common.describe(recs[0], 30)})


def numbering(ctx, sc, entry):
    """'with the true attempt number': the attempt a strategy call / retry event names is the attempt that was started last
    (the on_attempt_start hook is the library's own statement of which attempt begins)."""
    recs, h, w = rig.run(sc, entry)
    ctx.inc("runs")
    ctx.inc("calls", len(recs))
    for rec in recs:
        cur = None
        for ev in rec.trace:
            if ev[0] == "astart":
                cur = ev[2]
            elif cur is not None and (ev[0] == "strategy" or (ev[0] == "metric" and ev[1] == "retry")):
                ctx.inc("attempt_numbers_checked")
                if rec.fault_fired:
                    ctx.inc("attempt_numbers_checked_after_a_contained_hook_error")
                if ev[2] != cur:
                    what = "strategy was called" if ev[0] == "strategy" else "retry event was emitted"
                    ctx.viol("wrong-attempt-number", f"[{entry} call#{rec.idx}] {what} with attempt={ev[2]} while attempt {cur} was the one started last (fault plan {sc.get('fault')})", common.payload(sc, entry, rec.idx))
                    return


def no_delay_without_a_value(ctx, sc, entry):
    """A strategy call that RAISES has produced no delay: no retry may be granted (no `retry` event, no sleep) for that failure unless the
    strategy is asked again and answers (execute() asks again when it books the error as a further failure of the attempt - KF4/KF6 of
    C12 - and that second answer is a value)."""
    recs, h, w = rig.run(sc, entry)
    ctx.inc("runs")
    ctx.inc("calls", len(recs))
    for rec in recs:
        tr = rec.trace
        for i, ev in enumerate(tr):
            if ev[0] == "fault" and ev[1] == "strategy":
                ctx.inc("strategy_calls_that_raised")
                for z in tr[i + 1:]:
                    if z[0] in ("strategy", "op"):
                        break  # asked again / next attempt began some other way: judged by the data-flow oracle
                    if (z[0] == "metric" and z[1] == "retry") or z[0] in ("sleep", "dsleep", "handler", "before_sleep"):
                        ctx.viol("delay-without-a-strategy-value", f"[{entry} call#{rec.idx}] the strategy raised {ev[2]} when asked for the delay, yet the run went on with {z[:4]}", common.payload(sc, entry, rec.idx))
                        return
                break


def work(ctx, tier):
    stats = {}
    rng = common.rng_for(ctx, "main")
    # strategies that take time to answer (they consult a service): the delay is still the strategy's value capped at the remaining time the
    # strategy was TOLD (C05's "the remaining time"); what the clock says afterwards is C02's business (KF5 family, section 8)
    for k in range((300 if tier == "quick" else 6000) // ctx.nshards):
        sc = gen.rand_scenario(rng, max_attempts=(2, 5), p_special=0.0, p_budget=0.2, p_handler=0.3, p_abort=0.0, ncalls=(1, 2), placements=False)
        for c in sc["calls"]:
            c["strat_dur"] = [rng.choice([0.0, gen.G, 0.25, 0.5, 2.0]) for _ in range(4)]
            c["strat_values"] = [rng.choice([0.25, 0.5, 1.0, 3.0, 1e9, sc["cfg"]["deadline_s"]]) for _ in c["strat_values"]]
        for e in common.pick_entries(rng, rig.ENTRIES, 3):
            _one(ctx, sc, e, stats)
        ctx.inc("slow_strategy_scenarios")
    for k in range((400 if tier == "quick" else 8000) // ctx.nshards):
        sc = gen.rand_scenario(rng, max_attempts=(3, 6), p_special=0.0, p_budget=0.2, p_handler=0.3, p_abort=0.0, ncalls=(1, 2), placements=False)
        sc["fault"] = {"kind": "cb", "cb": "strategy", "at": rng.choice([0, 0, 1, 2]), "exc": rng.choice(gen.CB_EXCS)}
        for e in common.pick_entries(rng, rig.ENTRIES, 3):
            no_delay_without_a_value(ctx, sc, e)
        ctx.inc("raising_strategy_scenarios")
    # attempt numbering, also when an attempt hook fails in one particular attempt and execute() contains the error as a failed attempt
    for k in range((600 if tier == "quick" else 12000) // ctx.nshards):
        sc = gen.rand_scenario(rng, max_attempts=(3, 6), p_special=0.0, p_budget=0.2, p_handler=0.2, p_abort=0.0, ncalls=(1, 2), placements=False)
        sc["place"]["hooks"] = rng.choice(["call", "policy", "both"])
        if k % 3:
            sc["fault"] = {"kind": "cb", "cb": rng.choice(["astart", "astart", "aend"]), "at": rng.choice([0, 1, 1, 2, 3]), "exc": rng.choice(gen.CB_EXCS)}
        for e in common.pick_entries(rng, rig.EXECUTE_ENTRIES if sc.get("fault") else rig.ENTRIES, 3):
            numbering(ctx, sc, e)
        ctx.inc("numbering_scenarios")
    n = (12000 if tier == "quick" else 300000) // ctx.nshards
    for k in range(n):
        sc = gen.rand_scenario(rng, p_special=0.03, specials=("abort", "nested_open"), p_budget=0.25, p_handler=0.4, p_abort=0.1, ncalls=(1, 2), placements=(k % 4 == 0), nonretry_bias=True,
                               p_strategy_objects=0.35, rf_time=True, p_via_config=0.25, slow_hooks=(k % 5 == 2), p_exc_same=0.2, falsy_objects=True, p_res_none=0.1, p_attempt_timeout=0.15)
        # richer tables: any subset shape, arbitrary class order
        if k % 2 == 0:
            cs = rng.sample(gen.CLASSES, rng.randint(0, 8))
            sc["cfg"]["class_strategies"] = cs
            sc["cfg"]["default_strategy"] = rng.random() < 0.7 or not cs
            sc["cfg"]["legacy"] = [x for x in ["default"] + cs if rng.random() < 0.35]
            sc["cfg"]["strategy_objects"] = [x for x in ["default"] + cs if x not in sc["cfg"]["legacy"] and rng.random() < 0.3]
            sc["cfg"]["strategy_objects_falsy"] = [x for x in sc["cfg"]["strategy_objects"] if rng.random() < 0.5]
            sc["cfg"]["max_unknown"] = None
            sc["cfg"]["max_attempts"] = rng.randint(2, 6)
            for c in sc["calls"]:
                c["outcomes"] = [[rng.choice(["exc", "res"]), rng.choice(gen.RETRYABLE), rng.choice([None, 0.5, 3.0])] for _ in range(sc["cfg"]["max_attempts"])] + [["ok"]]
                m = len(c["outcomes"])
                c["durations"] = [rng.choice(gen.DUR) for _ in range(m)]
                c["overshoot"] = [rng.choice(gen.OVERSHOOT) for _ in range(m)]
                c["strat_values"] = [rng.choice(gen.STRAT_VALUES_HUGE + [sc["cfg"]["deadline_s"], sc["cfg"]["deadline_s"] + gen.G]) for _ in range(m)]
                if c.get("handler"):
                    c["handler"] = [rng.choice(["sleep", "sleep", "sleep", "defer", "abort"]) for _ in range(m)]
        for e in common.pick_entries(rng, rig.ENTRIES, 3):
            _one(ctx, sc, e, stats, sample=(k < 2 and ctx.shard == 0))
        ctx.inc("random_scenarios")
    nb = (3000 if tier == "quick" else 60000) // ctx.nshards
    for sc in gen.boundary_timing_scenarios(rng, nb):
        for e in common.pick_entries(rng, rig.ENTRIES, 2):
            _one(ctx, sc, e, stats)
        ctx.inc("boundary_scenarios")
    common.crossing_slice(ctx, tier, common.rng_for(ctx, "crossing"), lambda sc, e: _one(ctx, sc, e, stats))
    common.long_run_slice(ctx, tier, common.rng_for(ctx, "long"), lambda sc, e: _one(ctx, sc, e, stats))
    common.reconfig_slice(ctx, tier, common.rng_for(ctx, "reconfig"), lambda sc, e: _one(ctx, sc, e, stats), quick_n=300)
    # two threads on one policy object with a per-class strategy table, incl. the very first failures a fresh object handles
    tconc.thread_slice(ctx, tier, common.rng_for(ctx, "threads"), ["delays"], budget=False, breaker=False, first_use=True, nprog=2)
    common.flush_stats(ctx, stats)


def conclude(ctx):
    floors = {
        "strategy_calls_that_raised": (ctx.cnt["strategy_calls_that_raised"], 200),
        "strategy_calls_checked": (ctx.cnt["strategy_calls_checked"], 5000),
        "sanitised_nonfinite": (ctx.cnt["sanitised_nonfinite"], 300),
        "sanitised_negative": (ctx.cnt["sanitised_negative"], 100),
        "clamped": (ctx.cnt["clamped"], 300),
        "legacy_calls": (ctx.cnt["legacy_calls"], 300),
        "strategy_entry:per-class/context": (ctx.cnt["strategy_entry:per-class/context"], 300),
        "strategy_entry:per-class/legacy": (ctx.cnt["strategy_entry:per-class/legacy"], 100),
        "strategy_entry:default/context": (ctx.cnt["strategy_entry:default/context"], 300),
        "attempt_numbers_checked": (ctx.cnt["attempt_numbers_checked"], 1000),
        "attempt_numbers_checked_after_a_contained_hook_error": (ctx.cnt["attempt_numbers_checked_after_a_contained_hook_error"], 200),
    }
    common.crossing_floors(ctx, floors)
    if ctx.nshards <= 2 or True:
        floors["schedules_at_level:lines"] = (ctx.cnt["schedules_at_level:lines"], 100)
    return dict(
        rule=(
            "random scenarios with arbitrary strategy tables (any subset of the 8 classes, default present/absent, legacy/context signatures), return values from "
            "{0, -0.0, grid, NaN, +-inf, -1, 1e9, exact remainder, remainder + step} + deadline-boundary scenarios; one evaluation = one run; each strategy invocation is one data-flow check; "
            "non-trivial = run with at least one checked strategy invocation; distinct = distinct (table, scripts, values, entry); plus attempt numbering against the on_attempt_start hook, "
            "also when an attempt hook raises in one particular attempt of execute()"
        ),
        evaluations=ctx.cnt["calls"],
        nontrivial=len(ctx.sets["nontrivial"]),
        floors=floors,
        assumptions=common.ASSUME_COMMON + ["remaining_s is compared within 1 us; a delay is compared exactly unless the strategy value lies within 2 us of the remaining time"],
        exhaustive=False,
    )


def replay(data):
    if "tspec" in data["payload"]:
        return tconc.replay(data["payload"])
    sc = data["payload"].get("scenario")
    if data.get("key") == "delay-without-a-strategy-value":
        return common.replay_with(data, no_delay_without_a_value)
    if data.get("key") == "wrong-attempt-number":
        import collections

        class C:
            cnt = collections.Counter()
            bad = []

            def inc(self, *a):
                pass

            def viol(self, k, m, pl):
                self.bad.append(m)

        c = C()
        numbering(c, sc, data["payload"]["entry"])
        for m in c.bad:
            print("  !!", m)
        print("replay:", "violation reproduced" if c.bad else "no violation on this tree")
        return 1 if c.bad else 0
    return common.replay_trace(data, [O.o_delay])
