"""C06 - breaker opens exactly when counted failures reach a threshold in the window.

Online shadow model (rv.models.BreakerModel) stepped next to the REAL CircuitBreaker with the
same operations and the same virtual clock readings.  Bounded-exhaustive histories over a small
alphabet with boundary clock advances, plus long random histories.
"""

from __future__ import annotations

import itertools

from .. import env
from ..models import BreakerModel
from . import common

env.import_redress()

from redress import CircuitBreaker, ErrorClass  # noqa: E402

JOBS = {"quick": 4, "thorough": 16}
TIMEOUT = {"quick": 300, "thorough": 3600}
G = 1.0 / 64.0
EC = ErrorClass

CONFIGS = []
for th in (1, 2, 3):
    for ct in (None, 1, 2, 3):
        for window, recovery in ((1.0, 2.0), (2.0, 1.0), (1.0, 1.0)):
            if ct is not None and th == 1 and ct > 1:
                continue
            CONFIGS.append({"threshold": th, "class_threshold": ct, "window": window, "recovery": recovery})


def mk(cfg, world):
    trip = {EC.TRANSIENT, EC.SERVER_ERROR}
    kw = dict(failure_threshold=cfg["threshold"], window_s=cfg["window"], recovery_timeout_s=cfg["recovery"], trip_on=trip)
    cts = {}
    if cfg["class_threshold"] is not None:
        cts = {EC.SERVER_ERROR: cfg["class_threshold"]}
        kw["class_thresholds"] = cts
    if cfg.get("class_thresholds_multi"):
        # several per-class thresholds at once (each class must keep its own history)
        cts = {EC[k]: v for k, v in cfg["class_thresholds_multi"].items()}
        kw["class_thresholds"] = cts
    if cfg.get("extra_trip"):
        kw["trip_on"] = trip | {EC[k] for k in cfg["extra_trip"]}
    eff = set(kw["trip_on"])  # the configuration as the caller wrote it (a copy: the caller's own set is played with below)
    if cfg.get("trip_mode") == "default":
        del kw["trip_on"]  # the library's documented default {TRANSIENT, SERVER_ERROR}
        eff = {EC.TRANSIENT, EC.SERVER_ERROR}
    elif cfg.get("trip_mode") == "none-arg":
        kw["trip_on"] = None
        eff = {EC.TRANSIENT, EC.SERVER_ERROR}
    elif cfg.get("trip_mode") == "empty":
        kw["trip_on"] = rng_empty(cfg)  # explicitly empty: only class thresholds can trip
        eff = set()
    shape = cfg.get("trip_container", "set")
    if isinstance(kw.get("trip_on"), set) and shape != "set":
        # trip_on is "any iterable of classes": other containers, and single-pass iterators (generator expression, filter, iter)
        src = kw["trip_on"]
        kw["trip_on"] = {
            "frozenset": lambda: frozenset(src),
            "list": lambda: sorted(src, key=lambda k: k.name) * 2,  # with duplicates
            "tuple": lambda: tuple(src),
            "generator": lambda: (k for k in EC if k in src),
            "filter": lambda: filter(src.__contains__, EC),
            "iter": lambda: iter(list(src)),
            "dictkeys": lambda: dict.fromkeys(src).keys(),
        }[shape]()
    if cfg.get("clock_object"):
        # the caller's own clock: a callable object that counts its readings and can be sized - empty, hence falsy, when the breaker is built
        kw["clock"] = SizedClock(world)
    real = CircuitBreaker(**kw)  # default clock argument = interposed time.monotonic
    real.rv_clock = kw.get("clock")
    mine = kw.get("trip_on")
    if isinstance(mine, set) and cfg.get("reuse_trip_set", True):
        # the caller goes on using ITS set object: builds another breaker from it (one with class thresholds of its own), then edits it
        CircuitBreaker(failure_threshold=3, window_s=5.0, recovery_timeout_s=5.0, trip_on=mine, class_thresholds={EC.RATE_LIMIT: 1, EC.CONCURRENCY: 2})
        mine.add(EC.AUTH)
        mine.discard(EC.TRANSIENT)
    model = BreakerModel(threshold=cfg["threshold"], window=cfg["window"], recovery=cfg["recovery"], trip_on={k.name for k in eff}, class_thresholds={k.name: v for k, v in cts.items()})
    return real, model


class SizedClock:
    """The caller's own time source: another epoch than the process clock, and the process clock runs at half its speed - a breaker that
    measured its window on anything but this clock would age failures wrongly."""

    def __init__(self, world):
        self.t = 5000.0
        self.readings = 0

    def __call__(self):
        self.readings += 1
        return self.t

    def __len__(self):
        return 0  # (what it is sized over does not matter: it is falsy)


def rng_empty(cfg):
    return [set(), frozenset(), [], ()][cfg.get("empty_kind", 0) % 4]


def alphabet(cfg):
    w, r = cfg["window"], cfg["recovery"]
    advs = sorted({G, w / 2, w - G, w, w + G, r - G, r, r + G})
    ops = [("allow",), ("success",), ("fail", "TRANSIENT"), ("fail", "SERVER_ERROR"), ("fail", "PERMANENT"), ("cancel",)]
    return ops + [("adv", d) for d in advs]


EVENT_FOR = {(True, "half_open", "open"): "circuit_half_open"}


def step(real, model, world, op, hist, ctx, viol):
    """Apply one operation to both; compare.  Returns False when a violation was reported."""
    clk = getattr(real, "rv_clock", None)
    now = world.t if clk is None else clk.t
    kind = op[0]
    if kind == "adv":
        if clk is None:
            world.t += op[1]
        else:
            clk.t += op[1]
            world.t += op[1] / 2.0
        return True
    before = model.mode
    if kind == "allow":
        d = real.allow()
        got = (d.allowed, d.state.value)
        want = model.allow(now)
        if len(want) > 1:
            ctx.cnt["dont_care:recovery-boundary"] += 1
        if got not in want:
            viol("allow-disagrees-with-model", f"allow() -> {got}, model allows {sorted(want)} (model mode {before}, opened_at {model.opened_at}, now {now}, probe {model.probe})", hist)
            return False
        # event naming
        ev = d.event
        if not d.allowed:
            exp = "circuit_rejected"
        elif before == "open":
            exp = "circuit_half_open"
        else:
            exp = None
        if ev != exp:
            viol("allow-event-wrong", f"allow() -> {got} with event {ev!r}, expected {exp!r}", hist)
            return False
        model.commit_allow(now, got)
        ctx.cnt["op:allow:" + ("admitted" if d.allowed else "rejected") + ":" + before] += 1
    elif kind == "success":
        got = real.record_success()
        want = model.success(now)
        if got not in want:
            viol("success-disagrees-with-model", f"record_success() -> {got!r}, model allows {want} (mode {before})", hist)
            return False
        ctx.cnt["op:success:" + before] += 1
    elif kind == "cancel":
        real.record_cancel()
        model.cancel(now)
        ctx.cnt["op:cancel:" + before] += 1
    elif kind == "fail":
        k = op[1]
        got = real.record_failure(EC[k])
        want = model.failure(now, k)
        if len(want) > 1:
            ctx.cnt["dont_care:window-boundary"] += 1
        if got not in want:
            lo, hi = model._counts(now)
            viol(
                "opened-too-early" if got == "circuit_opened" else "failed-to-open",
                f"record_failure({k}) -> {got!r}, model allows {want}: mode {before}, counted failures in window {lo}..{hi} (+1), threshold {model.threshold}, class thresholds {model.class_thresholds}, now {now}, history of counted failures {model.fails}",
                hist,
            )
            return False
        model.commit_failure(now, k, got)
        ctx.cnt["op:fail:" + before + (":opened" if got else "")] += 1
    st = real.state.value
    if st != model.mode:
        viol("state-disagrees-with-model", f"after {op}: state {st}, model {model.mode}", hist)
        return False
    return True


def run_history(ctx, cfg, ops, viol, world, track=True):
    world.t = 1024.0
    real, model = mk(cfg, world)
    hist = {"config": cfg, "ops": [list(o) for o in ops]}
    prev = model.abstract(world.t)
    for op in ops:
        if not step(real, model, world, op, hist, ctx, viol):
            return False
        if track:
            cur = model.abstract(world.t)
            ctx.add("states", str(cur))
            if cur != prev:
                ctx.add("transitions", f"{prev}->{cur}")
            prev = cur
    ctx.cnt["steps"] += len(ops)
    ctx.cnt["histories"] += 1
    return True


def macro_history(rng, cfg):
    """Goal-directed histories: trip the circuit, wait, probe, settle the probe, fail again - the
    episodes in which stale history (not cleared on open/close) or a stale opening instant would show."""
    w, r, th = cfg["window"], cfg["recovery"], cfg["threshold"]
    ops = []
    for _ in range(rng.randint(2, 5)):
        k = rng.choice(["TRANSIENT", "SERVER_ERROR"])
        # trip (or nearly trip)
        n = th if rng.random() < 0.8 else th - 1
        if cfg.get("class_threshold") and k == "SERVER_ERROR":
            n = min(n, cfg["class_threshold"]) if rng.random() < 0.7 else n
        for _i in range(max(n, 0)):
            ops.append(("fail", k if rng.random() < 0.8 else rng.choice(["TRANSIENT", "SERVER_ERROR"])))
            if rng.random() < 0.3:
                ops.append(("adv", rng.choice([G, w / 2, 0.0])))
        if rng.random() < 0.35:
            # a late failure recorded while the circuit is (probably) open must not restart the timeout
            a = rng.choice([G, r / 2, r - G])
            ops.append(("adv", a))
            ops.append(("fail", rng.choice(["TRANSIENT", "SERVER_ERROR", "PERMANENT"])))
            if rng.random() < 0.3:
                ops.append(("success",))
            ops.append(("adv", rng.choice([r - a + G, r - a - G, r - a + G])))
        else:
            ops.append(("adv", rng.choice([r, r + G, r - G, r + G, 2 * r])))
        ops.append(("allow",))
        if rng.random() < 0.3:
            ops.append(("allow",))
        ops.append(rng.choice([("success",), ("success",), ("fail", k), ("cancel",)]))
        if rng.random() < 0.3:
            # more reports than probes: a straggler admitted before the trip (or a caller's finally-net) cancels as well, once or twice;
            # then several callers ask at once - still one probe at a time
            for _i in range(rng.randint(1, 2)):
                ops.append(("cancel",))
            for _i in range(rng.randint(2, 3)):
                ops.append(("allow",))
        if rng.random() < 0.5:
            ops.append(("allow",))
        # now a few failures shortly after: stale history would open too early
        for _i in range(rng.randint(0, th)):
            ops.append(("fail", rng.choice(["TRANSIENT", "SERVER_ERROR", "PERMANENT"])))
            if rng.random() < 0.3:
                ops.append(("adv", rng.choice([G, w - G, w, w + G])))
        if rng.random() < 0.4:
            ops.append(("adv", rng.choice([r - G, r, r + G, w + G])))
            ops.append(("allow",))
    return ops


def work(ctx, tier):
    rng = common.rng_for(ctx, "main")
    world = env.World()

    def viol(key, msg, hist):
        ctx.viol(key, msg, {"history": hist})

    with env.active(world):
        L = 4 if tier == "quick" else 6
        i = 0
        for ci, cfg in enumerate(CONFIGS):
            alpha = alphabet(cfg)
            for n in range(1, L + 1):
                if n < L and ctx.shard != 0:
                    continue  # shorter histories are prefixes of longer ones; shard 0 runs them once
                for ops in itertools.product(alpha, repeat=n):
                    i += 1
                    if n == L and i % ctx.nshards != ctx.shard:
                        continue
                    # histories that never fail can not exercise the property; skip the all-advance ones
                    run_history(ctx, cfg, ops, viol, world, track=(i % 16 == 0))
            ctx.cnt["exhaustive_configs"] += 1
        # random long histories, richer configurations
        n = (4000 if tier == "quick" else 150000) // ctx.nshards
        for k in range(n):
            cfg = dict(rng.choice(CONFIGS))
            if rng.random() < 0.3:
                cfg["threshold"] = rng.randint(1, 6)
            if rng.random() < 0.3:
                cfg["extra_trip"] = rng.sample(["UNKNOWN", "RATE_LIMIT", "CONCURRENCY", "AUTH"], rng.randint(1, 3))
            elif rng.random() < 0.4:
                cfg["trip_mode"] = rng.choice(["default", "none-arg", "empty"])
                cfg["empty_kind"] = rng.randrange(4)
            if rng.random() < 0.35:
                cfg["class_thresholds_multi"] = {k_: rng.randint(1, 3) for k_ in rng.sample(["TRANSIENT", "SERVER_ERROR", "RATE_LIMIT", "UNKNOWN"], rng.randint(2, 3))}
                ctx.cnt["configs_with_several_class_thresholds"] += 1
            if rng.random() < 0.25:
                cfg["clock_object"] = True
                ctx.cnt["breakers_with_a_caller_supplied_clock_object"] += 1
            if "trip_mode" not in cfg and rng.random() < 0.5:
                cfg["trip_container"] = rng.choice(["frozenset", "list", "tuple", "generator", "filter", "iter", "dictkeys"])
                ctx.cnt["trip_on_given_as:" + cfg["trip_container"]] += 1
            ctx.cnt["trip_mode:" + cfg.get("trip_mode", "explicit")] += 1
            alpha = alphabet(cfg) + [("fail", "UNKNOWN"), ("fail", "RATE_LIMIT"), ("adv", 0.0), ("adv", cfg["window"] * 3)]
            weights = [3 if o[0] == "fail" else 2 if o[0] == "allow" else 1 for o in alpha]
            ops = rng.choices(alpha, weights=weights, k=60)
            ok = run_history(ctx, cfg, ops, viol, world)
            ctx.cnt["random_histories"] += 1
            if k < 2 and ctx.shard == 0:
                ctx.sample({"config": cfg, "ops": [list(o) for o in ops[:25]]})
        m = (6000 if tier == "quick" else 200000) // ctx.nshards
        for k in range(m):
            cfg = dict(rng.choice(CONFIGS))
            if rng.random() < 0.3:
                cfg["trip_mode"] = rng.choice(["default", "none-arg", "empty"])
                cfg["empty_kind"] = rng.randrange(4)
            if rng.random() < 0.3:
                cfg["class_thresholds_multi"] = {k_: rng.randint(1, 3) for k_ in rng.sample(["TRANSIENT", "SERVER_ERROR"], 2)}
                ctx.cnt["configs_with_several_class_thresholds"] += 1
            ctx.cnt["trip_mode:" + cfg.get("trip_mode", "explicit")] += 1
            ops = macro_history(rng, cfg)
            run_history(ctx, cfg, ops, viol, world)
            ctx.cnt["macro_histories"] += 1
            if k < 1 and ctx.shard == 0:
                ctx.sample({"config": cfg, "macro_ops": [list(o) for o in ops[:30]]})
    ctx.cnt["clock_reads"] += world.hits["mono"]
    if tier != "quick":
        common.repo_suite_under_monitors(ctx, "breaker")


def conclude(ctx):
    floors = {
        "distinct abstract states": (len(ctx.sets["states"]), 20),
        "distinct transitions": (len(ctx.sets["transitions"]), 60),
        "dont_care:window-boundary": (ctx.cnt["dont_care:window-boundary"], 50),
        "dont_care:recovery-boundary": (ctx.cnt["dont_care:recovery-boundary"], 50),
        "op:fail:closed:opened": (ctx.cnt["op:fail:closed:opened"], 1000),
        "op:fail:closed": (ctx.cnt["op:fail:closed"], 1000),
        "op:fail:half_open:opened": (ctx.cnt["op:fail:half_open:opened"], 100),
        "op:success:half_open": (ctx.cnt["op:success:half_open"], 100),
        "clock_reads": (ctx.cnt["clock_reads"], 1000),
        "trip_mode:default": (ctx.cnt["trip_mode:default"], 100),
        "trip_mode:empty": (ctx.cnt["trip_mode:empty"], 100),
        "op:fail:open": (ctx.cnt["op:fail:open"], 500),
        "configs_with_several_class_thresholds": (ctx.cnt["configs_with_several_class_thresholds"], 200),
    }
    L = 4 if ctx.tier == "quick" else 6
    return dict(
        rule=(
            f"bounded-exhaustive: every history of length <= {L} over {{allow, record_success, record_failure(TRANSIENT|SERVER_ERROR|PERMANENT), record_cancel, advance d}} with d from "
            "{step, w/2, w-step, w, w+step, r-step, r, r+step} for 30 configurations (threshold 1-3, class threshold absent/1/2/3, window <,=,> recovery) + random 60-step histories over wider "
            "configurations + goal-directed episode histories (trip, wait around the timeout, probe, settle, fail again); every step is one comparison of the real CircuitBreaker's observable result with the shadow model's allowed set; distinct_nontrivial = distinct abstract model states "
            "(mode, live failures, boundary failures, probe flag, age relation) + distinct transitions between them"
        ),
        evaluations=ctx.cnt["steps"],
        nontrivial=len(ctx.sets["states"]) + len(ctx.sets["transitions"]),
        floors=floors,
        assumptions=[
            "the 40-line BreakerModel (rv/models.py) is the specification: it transcribes C06/C07's sentences",
            "entries whose age equals window_s exactly, and an open circuit whose age equals recovery_timeout_s exactly, are don't-care (both answers accepted); one grid step (1/64 s) either side is exact",
            "the breaker reads time through its default clock argument time.monotonic, interposed before import",
        ],
        extra={"states": len(ctx.sets["states"]), "transitions": len(ctx.sets["transitions"]), "histories": ctx.cnt["histories"], "exhaustive_scope": f"length<={L} x {len(CONFIGS)} configs"},
        exhaustive=False,
    )


def replay(data):
    h = data["payload"]["history"]
    world = env.World()
    bad = []

    class C:
        import collections

        cnt = collections.Counter()

        def add(self, *a):
            pass

    with env.active(world):
        world.t = 1024.0
        real, model = mk(h["config"], world)
        for op in h["ops"]:
            ok = step(real, model, world, tuple(op), h, C, lambda k, m, hh: bad.append((k, m)))
            print("  ", op, "-> state", real.state.value, "| model", model.mode, model.fails)
            if not ok:
                break
    for k, m in bad:
        print("  !!", k, m)
    print("replay:", "violation reproduced" if bad else "no violation on this tree")
    return 1 if bad else 0
