"""C07 - open breaker fails fast; recovery admits exactly one probe.

(1) Policy-level histories: sequences of Policy/AsyncPolicy calls with scripted outcomes and
clock gaps; the shadow BreakerModel is driven by the spy events those calls cause.
(2) Concurrent async calls under a coroutine interleaver: k calls on one AsyncPolicy whose
operations suspend, every interleaving for small programs (DFS by re-execution), random beyond.
"""

from __future__ import annotations

from .. import env, gen, rig, tconc
from ..models import BreakerModel
from ..view import View
from . import common

from redress import AsyncPolicy, AsyncRetry, CircuitBreaker, CircuitOpenError, ErrorClass  # noqa: E402
from redress.errors import PermanentError, ServerError  # noqa: E402

JOBS = {"quick": 4, "thorough": 16}
G = gen.G
EC = ErrorClass


def model_for(br):
    return BreakerModel(threshold=br["threshold"], window=br["window"], recovery=br["recovery"],
                        trip_on=set(br["trip_on"] if br.get("trip_on") is not None else ["TRANSIENT", "SERVER_ERROR"]), class_thresholds=br.get("class_thresholds") or {})


def feed(model, ev, ctx):
    """Feed one spy event to the model.  Returns (key, message) on disagreement, else None."""
    k = ev[0]
    before = model.mode
    if k == "br.allow":
        now = ev[4]
        got = (ev[1], ev[2])
        want = model.allow(now)
        if len(want) > 1:
            ctx.cnt["dont_care:recovery-boundary"] += 1
        if got not in want:
            if got[0] and before == "half_open":
                key = "second-probe-admitted"
            elif got[0] and before == "open":
                key = "admitted-while-open"
            elif not got[0]:
                key = "rejected-although-admissible"
            else:
                key = "allow-disagrees-with-model"
            return key, f"allow() at t={now} -> {got}; model (mode {before}, opened_at {model.opened_at}, probe in flight {model.probe}) allows {sorted(want)}"
        model.commit_allow(now, got)
        ctx.cnt[f"allow:{'admitted' if got[0] else 'rejected'}:{before}"] += 1
        if got[0] and before == "open":
            ctx.cnt["probes_admitted"] += 1
        if now - (model.opened_at or 0) == model.recovery and before == "open":
            ctx.cnt["boundary:allow-exactly-at-timeout"] += 1
        return None
    if k == "br.success":
        want = model.success(ev[2])
        if ev[1] not in want:
            return "success-disagrees-with-model", f"record_success() -> {ev[1]!r}; model (mode {before}) allows {want}"
        if before == "half_open":
            ctx.cnt["probe:succeeded"] += 1
        return None
    if k == "br.cancel":
        model.cancel(ev[1])
        if before == "half_open":
            ctx.cnt["probe:cancelled"] += 1
        return None
    if k == "br.failure":
        now = ev[3]
        want = model.failure(now, ev[1])
        if len(want) > 1:
            ctx.cnt["dont_care:window-boundary"] += 1
        if ev[2] not in want:
            lo, hi = model._counts(now)
            key = "opened-too-early" if ev[2] == "circuit_opened" else "failed-to-open"
            return key, f"record_failure({ev[1]}) at t={now} -> {ev[2]!r}; model (mode {before}, counted {lo}..{hi}+1 of {model.threshold}, history {model.fails}) allows {want}"
        model.commit_failure(now, ev[1], ev[2])
        if before == "half_open":
            ctx.cnt["probe:failed"] += 1
        return None
    return None


# ------------------------------------------------------------------------------ (1) policy-level histories
def policy_history(ctx, sc, entry):
    recs, h, world = rig.run(sc, entry)
    ctx.inc("history_runs")
    ctx.inc("calls", len(recs))
    model = model_for(sc["cfg"]["breaker"])
    for ev in h._pre:
        if ev[0].startswith("br."):
            feed(model, ev, ctx)
    for rec in recs:
        v = View(rec, sc)
        spy = [e for e in rec.trace if e[0].startswith("br.")]
        if spy and spy[0][0] == "br.cancel" and len(spy) == 1 and v.no_retry and v.pre_poll_true and not v.nops:
            # Policy(retry=None): abort_if answered True before the breaker was consulted; the call is
            # cancelled without admission (tests/test_policy.py::test_policy_call_no_retry_abort_if_records_cancel)
            feed(model, spy[0], ctx)
            ctx.inc("preflight_aborts")
            continue
        if not spy or spy[0][0] != "br.allow":
            ctx.viol("breaker-not-consulted", f"[{entry} call#{rec.idx}] no allow() before the call: {spy}", common.payload(sc, entry, rec.idx))
            return recs
        must_reject = model.allow(spy[0][4]) == {(False, model.mode)}
        mode_before = model.mode
        for ev in spy:
            bad = feed(model, ev, ctx)
            if bad:
                ctx.viol(bad[0], f"[{entry} call#{rec.idx}] {bad[1]}", common.payload(sc, entry, rec.idx))
                return recs
        admitted = spy[0][1]
        ctx.add("states", str(model.abstract(world.t)))
        if admitted and spy[0][2] == "half_open":
            # this call was the probe: its scripted outcome decides the circuit's next state
            from ..oracles import run_ending

            how, seg = run_ending(v)
            want = None
            if how == "value":
                want = "closed"
            elif how in ("stopped", "deferred"):
                want = "open"
                if seg is not None and seg.out[0] == "sp" and seg.out[1] == "nested_open" and not entry.endswith(".execute"):
                    want = None  # KF2: call() deliberately ignores a nested CircuitOpenError
            elif how in ("aborted",):
                want = "half_open"
            if want is not None:
                ctx.cnt["probe_outcomes_checked:" + how] += 1
                if model.mode != want:
                    ctx.viol(
                        f"probe-outcome-not-applied:{how}",
                        f"[{entry} call#{rec.idx}] the half-open probe ended '{how}' ({seg and seg.out}); circuit should be {want}, breaker was told {spy[1:]} and is {model.mode}",
                        common.payload(sc, entry, rec.idx),
                    )
                    return recs
                if want == "open" and model.opened_at != spy[-1][-1]:
                    ctx.viol("probe-failure-without-fresh-timeout", f"[{entry} call#{rec.idx}] failed probe: opened_at {model.opened_at} != record time {spy[-1][-1]}", common.payload(sc, entry, rec.idx))
                    return recs
        if not admitted:
            ctx.inc("rejections_observed")
            kind, val = rec.final
            if v.nops:
                ctx.viol("rejected-but-invoked", f"[{entry} call#{rec.idx}] breaker rejected the call but the operation ran {v.nops} times", common.payload(sc, entry, rec.idx))
            if len(spy) > 1:
                ctx.viol("rejection-recorded", f"[{entry} call#{rec.idx}] rejected call caused breaker records {spy[1:]}", common.payload(sc, entry, rec.idx))
            if entry.endswith(".execute"):
                ok = kind == "return" and not val.ok and val.attempts == 0 and isinstance(val.last_exception, CircuitOpenError)
            else:
                ok = kind == "raise" and isinstance(val, CircuitOpenError)
            if not ok:
                ctx.viol("rejection-not-delivered", f"[{entry} call#{rec.idx}] rejected call delivered {kind} {val!r}", common.payload(sc, entry, rec.idx))
            work_ev = [e for e in rec.trace if e[0] in ("op", "strategy", "sleep", "dsleep", "classify", "budget")]
            if work_ev:
                ctx.viol("work-after-rejection", f"[{entry} call#{rec.idx}] {work_ev[:3]}", common.payload(sc, entry, rec.idx))
        elif must_reject:
            pass  # already reported by feed
    return recs


def gen_policy_history(rng):
    sc = gen.rand_scenario(rng, max_attempts=(1, 3), p_special=0.06, specials=("abort", "cancel", "nested_open", "timeout", "timeout"), p_breaker=1.0, ncalls=(4, 10), p_abort=0.1, p_handler=0.1, p_budget=0.1, falsy_objects=True)
    br = sc["cfg"]["breaker"]
    br["threshold"] = rng.randint(1, 3)
    rcv, w = br["recovery"], br["window"]
    for c in sc["calls"]:
        c["gap"] = rng.choice([0.0, 0.0, G, rcv - G, rcv, rcv + G, w - G, w, w + G, 0.25, 30.0])
        if rng.random() < 0.5:
            c["outcomes"] = [[rng.choice(["exc", "res"]), rng.choice(br.get("effective_trip_on") or br["trip_on"]), None] for _ in c["outcomes"]]
        c["durations"] = [rng.choice([0.0, 0.0, G, 0.25]) for _ in c["durations"]]
    if rng.random() < 0.15:
        sc["cfg"]["no_retry"] = True
    if rng.random() < 0.5:
        # goal-directed episode: trip, wait around the timeout, probe (success/failure), then single failures
        k = (br.get("effective_trip_on") or br["trip_on"])[0]
        th = br["threshold"]
        calls = sc["calls"]
        plan = []
        for _ in range(th):
            plan.append(("fail", rng.choice([0.0, G])))
        plan.append((rng.choice(["ok", "ok", "fail", "abort"]), rng.choice([rcv, rcv + G, rcv + G, 2 * rcv])))
        for _ in range(rng.randint(1, th + 1)):
            plan.append((rng.choice(["fail", "fail", "ok"]), rng.choice([0.0, G, rcv - G, rcv + G])))
        for i, (what, gap) in enumerate(plan):
            if i >= len(calls):
                calls.append(dict(calls[-1]))
            c = calls[i] = dict(calls[i])
            c["gap"] = gap
            c["abort_at"] = None
            n = len(c["outcomes"])
            if what == "fail":
                c["outcomes"] = [(["exc", k, None] if rng.random() < 0.7 else ["sp", "timeout", k]) for _ in range(n)]
            elif what == "ok":
                c["outcomes"] = [["ok"] for _ in range(n)]
            else:
                c["outcomes"] = [["sp", "abort"] for _ in range(n)]
        sc["cfg"]["per_class"] = {}
    return sc


# ------------------------------------------------------------------------------ (2) coroutine interleaver
class ConcRun:
    """k concurrent calls on one AsyncPolicy with a spied breaker; events tagged with the call that caused them."""

    def __init__(self, prog, world):
        self.prog = prog
        self.world = world
        self.events = []  # (call_id, event tuple)
        self.cur = None
        self.inflight = set()
        self.max_inflight_half_open = 0
        me = self

        class Spy(CircuitBreaker):
            def allow(s, *a, **kw):
                d = super().allow(*a, **kw)
                me.events.append((me.cur, ("br.allow", d.allowed, d.state.value, d.event, world.t)))
                return d

            def record_success(s, *a, **kw):
                r = super().record_success(*a, **kw)
                me.events.append((me.cur, ("br.success", r, world.t)))
                return r

            def record_failure(s, klass, *a, **kw):
                r = super().record_failure(klass, *a, **kw)
                me.events.append((me.cur, ("br.failure", klass.name, r, world.t)))
                return r

            def record_cancel(s, *a, **kw):
                super().record_cancel(*a, **kw)
                me.events.append((me.cur, ("br.cancel", world.t)))

        br = prog["breaker"]
        self.breaker = Spy(failure_threshold=br["threshold"], window_s=br["window"], recovery_timeout_s=br["recovery"], trip_on={EC[k] for k in br["trip_on"]})
        for step in br["pre"]:
            if step[0] == "fail":
                self.breaker.record_failure(EC[step[1]])
            elif step[0] == "adv":
                world.t += step[1]
        retry = None
        if prog["retry"]:
            retry = AsyncRetry(classifier=lambda e: EC[getattr(e, "rv_klass", "UNKNOWN")], strategy=lambda c: 0.25, max_attempts=2, deadline_s=1000.0)
        self.policy = AsyncPolicy(retry=retry, circuit_breaker=self.breaker)
        self.finals = {}

    def mk_call(self, cid):
        spec = self.prog["calls"][cid]
        me = self
        n = [0]

        async def op():
            i = n[0]
            n[0] += 1
            me.events.append((cid, ("op-start", i)))
            me.inflight.add(cid)
            try:
                for _ in range(spec["suspends"]):
                    await env.Suspend("op")
                me.world.t += spec["dur"]
                o = spec["outcomes"][i % len(spec["outcomes"])]
                if o[0] == "ok":
                    return ("val", cid, i)
                # marker types, so that a policy without a retry component (default_classifier) sees the scripted class too
                x = {"TRANSIENT": TimeoutError, "SERVER_ERROR": ServerError, "PERMANENT": PermanentError}[o[1]](f"{o[1]}@{i}")
                x.rv_klass = o[1]
                raise x
            finally:
                me.inflight.discard(cid)
                me.events.append((cid, ("op-end", i)))

        async def sleeper(s):
            await env.Suspend("sleep")
            me.world.t += s

        kw = {}
        if spec.get("abort"):
            kw["abort_if"] = lambda: True
        if spec["meth"] == "execute":
            return self.policy.execute(op, sleeper=sleeper, **kw)
        return self.policy.call(op, sleeper=sleeper, **kw)


def run_interleaving(prog, prefix, rng=None):
    """Execute one interleaving: `prefix` fixes the first choices; afterwards lowest-index (or random)."""
    world = env.World()
    with env.active(world):
        run = ConcRun(prog, world)
        k = len(prog["calls"])
        coros = {}
        state = {}
        choices = []  # (enabled tuple, chosen)
        for cid in range(k):
            coros[cid] = run.mk_call(cid)
            state[cid] = "new"
        ticks = list(prog.get("ticks") or [])
        CLOCK = k  # pseudo-participant: when scheduled, real time passes while the calls stay suspended
        step = 0
        while True:
            enabled = tuple(c for c in range(k) if state[c] != "done")
            if not enabled:
                break
            if ticks:
                enabled = enabled + (CLOCK,)
            if step < len(prefix):
                c = prefix[step]
                if c not in enabled:
                    c = enabled[0]
            elif rng is not None:
                c = rng.choice(enabled)
            else:
                c = enabled[0]
            choices.append((enabled, c))
            step += 1
            if c == CLOCK:
                d = ticks.pop(0)
                world.t += d
                run.events.append((None, ("tick", d, world.t)))
                continue
            run.cur = c
            # start offsets: the first activation of a call may advance the clock
            if state[c] == "new":
                world.t += prog["calls"][c]["start_gap"]
                state[c] = "running"
            try:
                coros[c].send(None)
            except StopIteration as s:
                run.finals[c] = ("return", s.value)
                state[c] = "done"
            except BaseException as x:  # noqa: BLE001
                run.finals[c] = ("raise", x)
                state[c] = "done"
            run.cur = None
        # sequential tail: whatever happened concurrently, the fail-fast period runs from the moment the
        # circuit opened; probe just before and just after that instant
        run.tail = []
        if run.breaker.state.value == "open":
            run.cur = "tail"
            run.tail_from = world.t
        run.world_end = world.t
    return run, choices


def judge_interleaving(ctx, prog, run, choices):
    model = model_for(prog["breaker"])
    t = 1024.0
    for step in prog["breaker"]["pre"]:
        if step[0] == "fail":
            r = model.failure(t, step[1])
            model.commit_failure(t, step[1], "circuit_opened" if r == {"circuit_opened"} else None)
        else:
            t += step[1]
    # drop the pre events (cur None) and replay the rest in order
    admitted = {}
    admitted_mode = {}
    probes_in_flight = set()
    maxprobe = 0
    key = None
    probe_owner = None
    stale = []
    sched = [c for _, c in choices]
    for cid, ev in run.events:
        if cid is None:
            continue
        if ev[0] == "br.allow":
            before = model.mode
            bad = feed(model, ev, ctx)
            if bad:
                return bad[0], f"{bad[1]} [call {cid}; schedule {sched}]"
            admitted[cid] = ev[1]
            admitted_mode[cid] = before
            if ev[1] and probe_owner is not None:
                # the probe's result has not been recorded yet: nobody else may be admitted
                if stale:
                    return "stale-record-from-call-admitted-before-the-trip", (
                        f"call {cid} admitted at t={ev[4]} while probe call {probe_owner} is still in flight; the slot/state was changed by "
                        f"{stale} - record(s) from call(s) admitted while the circuit was still closed [schedule {sched}]"
                    )
                return "admitted-while-probe-in-flight", f"call {cid} admitted (state {ev[2]}) while probe call {probe_owner}'s result is not recorded [schedule {sched}]"
            if ev[1] and before in ("open", "half_open"):
                probe_owner = cid
                stale = []
                probes_in_flight.add(cid)
                maxprobe = max(maxprobe, len(probes_in_flight))
        elif ev[0] in ("br.success", "br.failure", "br.cancel"):
            before = model.mode
            bad = feed(model, ev, ctx)
            if bad:
                return bad[0], f"{bad[1]} [call {cid}; schedule {sched}]"
            probes_in_flight.discard(cid)
            if cid == probe_owner:
                probe_owner = None
                stale = []
            elif probe_owner is not None and admitted_mode.get(cid) == "closed":
                stale.append((cid, ev[0]))
                ctx.cnt["stale_records_while_probe_in_flight"] += 1
        elif ev[0] == "op-start":
            if admitted.get(cid) is False:
                return "rejected-but-invoked", f"call {cid} was rejected by the breaker yet its operation started [schedule {sched}]"
            if cid not in admitted:
                return "operation-before-admission", f"call {cid} ran its operation before allow() [schedule {sched}]"
    # tail: the model knows when the circuit opened; the real breaker must admit right after opened_at + recovery
    if model.mode == "open":
        world = env.World()
        t_probe = model.opened_at + model.recovery + G
        if t_probe >= run.world_end:
            with env.active(world):
                world.t = t_probe
                d = CircuitBreaker.allow(run.breaker)
            ctx.cnt["tail_probes"] += 1
            if not d.allowed:
                return "timeout-restarted-while-open", f"circuit opened at t={model.opened_at}; at t={t_probe} (recovery_timeout_s + one step later) allow() still rejects: the fail-fast period did not run from the moment of opening [schedule {sched}]"
    ctx.mx("max_probes_in_flight", maxprobe)
    if maxprobe > 1:
        return "two-probes-in-flight", f"{maxprobe} admitted probes in flight while half-open [schedule {sched}]"
    for cid, adm in admitted.items():
        kind, val = run.finals.get(cid, (None, None))
        if adm is False:
            ctx.inc("concurrent_rejections")
            meth = prog["calls"][cid]["meth"]
            ok = (kind == "return" and not val.ok and val.attempts == 0) if meth == "execute" else (kind == "raise" and isinstance(val, CircuitOpenError))
            if not ok:
                return "rejection-not-delivered", f"call {cid} rejected but delivered {kind} {val!r}"
    return None


def explore(ctx, prog, limit, rng):
    """DFS over interleavings by re-execution; returns number explored and whether the space was exhausted."""
    prefix = []
    n = 0
    exhausted = False
    while True:
        run, choices = run_interleaving(prog, prefix)
        n += 1
        ctx.inc("interleavings")
        ctx.add_hash("schedules", [prog["id"], [c for _, c in choices]])
        bad = judge_interleaving(ctx, prog, run, choices)
        if bad:
            ctx.viol(bad[0], f"[interleaver {prog['id']}] {bad[1]}", {"program": prog, "prefix": [c for _, c in choices]})
            return n, False
        nxt = None
        for i in range(len(choices) - 1, -1, -1):
            enabled, c = choices[i]
            later = [e for e in enabled if e > c]
            if later:
                nxt = [ch for _, ch in choices[:i]] + [later[0]]
                break
        if nxt is None:
            exhausted = True
            break
        if n >= limit:
            break
        prefix = nxt
    return n, exhausted


def gen_program(rng, k, retry, pid):
    rcv = rng.choice([1.0, 5.0])
    th = rng.randint(1, 2)
    init = rng.choice(["expired", "expired", "boundary", "almost", "closed-near", "closed-near", "closed-near"])
    pre = [["fail", "TRANSIENT"]] * th
    if init == "expired":
        pre += [["adv", rcv + G]]
    elif init == "boundary":
        pre += [["adv", rcv]]
    elif init == "almost":
        pre += [["adv", rcv - G]]
    else:
        pre = [["fail", "TRANSIENT"]] * (th - 1)
    calls = []
    for c in range(k):
        outs = [rng.choice([["ok"], ["exc", "TRANSIENT"], ["exc", "TRANSIENT"], ["exc", "PERMANENT"], ["exc", "SERVER_ERROR"]]) for _ in range(2)]
        calls.append({"meth": rng.choice(["call", "execute"]), "suspends": rng.randint(1, 2), "dur": rng.choice([0.0, G, 0.25, 0.25, rcv, rcv + G]), "outcomes": outs,
                      "start_gap": rng.choice([0.0, 0.0, G, 2 * G]) if init in ("almost", "boundary") else 0.0, "abort": rng.random() < 0.15})
    ticks = []
    if rng.random() < 0.5:
        ticks = [rng.choice([rcv + G, rcv, rcv - G, G, 2 * rcv]) for _ in range(rng.randint(1, 2))]
    return {"id": pid, "breaker": {"threshold": th, "window": 10.0, "recovery": rcv, "trip_on": ["TRANSIENT", "SERVER_ERROR"], "pre": pre, "init": init}, "retry": retry, "calls": calls, "ticks": ticks}


def stale_programs():
    """Directed family: calls admitted while the circuit is still closed are still running when it opens and
    goes half-open (a clock tick passes the recovery timeout while they are suspended)."""
    out = []
    for th in (1, 2):
        for slow_out in (["ok"], ["exc", "TRANSIENT"], ["exc", "PERMANENT"]):
            for meth in ("call", "execute"):
                calls = [
                    {"meth": meth, "suspends": 2, "dur": 0.0, "outcomes": [slow_out], "start_gap": 0.0, "abort": False},
                    {"meth": "call", "suspends": 1, "dur": 0.0, "outcomes": [["exc", "TRANSIENT"]], "start_gap": 0.0, "abort": False},
                    {"meth": "execute", "suspends": 2, "dur": 0.0, "outcomes": [["ok"]], "start_gap": 0.0, "abort": False},
                    {"meth": "call", "suspends": 1, "dur": 0.0, "outcomes": [["ok"]], "start_gap": 0.0, "abort": False},
                ]
                out.append({"id": f"stale-th{th}-{slow_out[-1]}-{meth}", "breaker": {"threshold": th, "window": 10.0, "recovery": 1.0, "trip_on": ["TRANSIENT", "SERVER_ERROR"],
                                                                                "pre": [["fail", "TRANSIENT"]] * (th - 1), "init": "closed-near"}, "retry": False, "calls": calls, "ticks": [1.0 + G]})
    return out


def work(ctx, tier):
    rng = common.rng_for(ctx, "main")
    n = (5000 if tier == "quick" else 150000) // ctx.nshards
    for k in range(n):
        sc = gen_policy_history(rng)
        for e in common.pick_entries(rng, rig.BREAKER_ENTRIES, 2):
            recs = policy_history(ctx, sc, e)
            if k == 0 and ctx.shard == 0 and len(ctx.samples) < 1:
                ctx.sample({"policy_history": {"breaker": sc["cfg"]["breaker"], "gaps": [c["gap"] for c in sc["calls"]]}, "calls": [common.describe(r, 12) for r in recs[:4]]})
        ctx.inc("policy_histories")
    nprog = (240 if tier == "quick" else 4000) // ctx.nshards
    limit = 300 if tier == "quick" else 6000
    for p in range(nprog):
        k = rng.choice([2, 2, 3, 3, 4])
        retry = k == 2 and rng.random() < 0.6
        prog = gen_program(rng, k, retry, f"s{ctx.shard}p{p}")
        if k <= 3:
            cnt, exhausted = explore(ctx, prog, limit, rng)
            ctx.inc("programs_dfs")
            if exhausted:
                ctx.inc("programs_exhausted")
        else:
            for _ in range(limit // 4):
                run, choices = run_interleaving(prog, [], rng)
                ctx.inc("interleavings")
                ctx.add_hash("schedules", [prog["id"], [c for _, c in choices]])
                bad = judge_interleaving(ctx, prog, run, choices)
                if bad:
                    ctx.viol(bad[0], f"[interleaver {prog['id']}] {bad[1]}", {"program": prog, "prefix": [c for _, c in choices]})
                    break
            ctx.inc("programs_random")
        if p == 0 and ctx.shard == 0:
            ctx.sample({"interleaver_program": prog})
    for i, prog in enumerate(stale_programs()):
        if i % ctx.nshards != ctx.shard:
            continue
        for _ in range(400 if tier == "quick" else 4000):
            run, choices = run_interleaving(prog, [], rng)
            ctx.inc("interleavings")
            ctx.inc("directed_stale_schedules")
            ctx.add_hash("schedules", [prog["id"], [c for _, c in choices]])
            bad = judge_interleaving(ctx, prog, run, choices)
            if bad:
                stop = ctx.viol(bad[0], f"[interleaver {prog['id']}] {bad[1]}", {"program": prog, "prefix": [c for _, c in choices]})
                if stop:
                    break
    # whole sync calls in threads right after the recovery timeout (the statement's "exactly one probe" does not depend on who calls)
    tconc.thread_slice(ctx, tier, common.rng_for(ctx, "threads"), ["probe"], budget=False, breaker=True)


def conclude(ctx):
    floors = {
        "rejections_observed": (ctx.cnt["rejections_observed"], 1000),
        "probes_admitted": (ctx.cnt["probes_admitted"], 500),
        "probe:succeeded": (ctx.cnt["probe:succeeded"], 100),
        "probe:failed": (ctx.cnt["probe:failed"], 100),
        "probe:cancelled": (ctx.cnt["probe:cancelled"], 20),
        "allow:rejected:half_open": (ctx.cnt["allow:rejected:half_open"], 50),
        "boundary:allow-exactly-at-timeout": (ctx.cnt["boundary:allow-exactly-at-timeout"], 20),
        "distinct interleavings": (len(ctx.sets["schedules"]), 1000),
        "concurrent_rejections": (ctx.cnt["concurrent_rejections"], 200),
        "programs_exhausted": (ctx.cnt["programs_exhausted"], 5),
    }
    floors.update(tconc.floors(ctx))
    return dict(
        rule=(
            "policy-level histories: 4-10 calls per policy object over the 6 breaker-carrying entry points with gaps from {0, step, recovery-step, recovery, recovery+step, window-step, window, "
            "window+step, ...}; every spy event is fed to the shadow model; concurrent part: programs of 2-4 async calls (call/execute, with/without retry, operations with 1-2 suspension "
            "points, started around the timeout boundary), all interleavings by DFS re-execution for k<=3 (bounded), seeded random for k=4; distinct_nontrivial = distinct interleavings "
            "(choice sequences) + distinct abstract model states reached by histories" + tconc.RULE
        ),
        evaluations=ctx.cnt["calls"] + ctx.cnt["interleavings"],
        nontrivial=len(ctx.sets["schedules"]) + len(ctx.sets["states"]),
        floors=floors,
        assumptions=common.ASSUME_COMMON + ["the shadow BreakerModel is the specification (don't-care at exact boundary ages)", "KF3 (a record from a call admitted before the trip lands while a probe is in flight) is recognised only by that mechanism", "async concurrency is explored at suspension-point granularity (coroutines cannot be pre-empted elsewhere)"],
        extra={"max_probes_in_flight_observed": ctx.maxs.get("max_probes_in_flight", 0), "interleavings": ctx.cnt["interleavings"], "programs_exhausted": ctx.cnt["programs_exhausted"]},
        exhaustive=False,
    )


def replay(data):
    if "tspec" in data["payload"]:
        return tconc.replay(data["payload"])
    p = data["payload"]
    if "program" in p:
        run, choices = run_interleaving(p["program"], p["prefix"])

        class C:
            import collections

            cnt = collections.Counter()

            def mx(self, *a):
                pass

            def inc(self, *a):
                pass

        for cid, ev in run.events:
            print("   call", cid, ev)
        bad = judge_interleaving(C(), p["program"], run, choices)
        print("  finals", run.finals)
        if bad:
            print("  !!", bad)
        print("replay:", "violation reproduced" if bad else "no violation on this tree")
        return 1 if bad else 0
    sc, entry = p["scenario"], p["entry"]

    class Cx:
        def __init__(self):
            import collections

            self.cnt = collections.Counter()
            self.bad = []

        def inc(self, *a):
            pass

        def add(self, *a):
            pass

        def viol(self, k, m, pl):
            self.bad.append((k, m))

    c = Cx()
    recs = policy_history(c, sc, entry)
    for r in recs:
        print("--- call", r.idx)
        for ev in r.trace:
            if ev[0].startswith("br.") or ev[0] == "op":
                print("   ", ev)
        print("    final", r.final)
    for k, m in c.bad:
        print("  !!", k, m)
    print("replay:", "violation reproduced" if c.bad else "no violation on this tree")
    return 1 if c.bad else 0
