"""C08 - every admitted call settles the breaker; no half-open probe slot is leaked.

Fault enumeration: for each base scenario x breaker-carrying entry point, a clean run discovers
the injection points (callback invocations, suspension points, attempts); then one run per
(point, kind).  Oracles: (b) between an admitting allow() and the end of the call the breaker
saw at least one record_success/failure/cancel; (a) black box: the call was admitted as the
half-open probe, and after it ended and recovery_timeout_s elapsed again, allow() admits - and the
breaker, driven directly through one more outage (close, threshold failures, timeout), admits a
probe again (a slot still marked taken inside a closed breaker only shows then).
"""

from __future__ import annotations

import copy

from .. import env, gen, rig, tconc
from ..oracles import run_ending
from ..view import View
from . import common

from redress import CircuitBreaker, ErrorClass  # noqa: E402

JOBS = {"quick": 4, "thorough": 16}
ENTRIES = ["policy.call", "policy.execute", "policy.ctx", "apolicy.call", "apolicy.execute", "apolicy.ctx"]
CB_NAMES = ["classifier", "rclassifier", "strategy", "abort_if", "handler", "sleeper", "astart", "aend"]
OP_SPECIALS = ["abort", "cancel", "kbd", "sysexit", "genexit", "base", "nested_open", "nested_exh", "cancel_exc", "sysexit_exc"]
THROW_KINDS = ["cancel", "kbd", "sysexit", "close"]


def base_scenarios(rng, n):
    out = []
    for k in range(n):
        sc = gen.rand_scenario(rng, max_attempts=(1, 4), p_special=0.0, p_budget=0.25, p_breaker=0.0, p_handler=0.4, p_abort=0.0, ncalls=(1, 1), placements=(k % 3 == 0))
        sc["place"]["hooks"] = rng.choice(["call", "policy", "both"])
        if sc["place"]["before_sleep"] == "none" and rng.random() < 0.5:
            sc["place"]["before_sleep"] = "call"
        sc["bs_kind"] = rng.choice(["sync", "async"])
        sc["poll"] = True
        init = rng.choice(["expired", "expired", "expired", "closed", "near", "probing"])
        th = rng.randint(1, 3)
        trip = sorted(set(rng.sample(gen.CLASSES, rng.randint(2, 6))) | {"TRANSIENT"})
        recovery = rng.choice([1.0, 5.0])
        pre = []
        if init == "expired":
            pre = [["fail", "TRANSIENT"]] * th + [["adv", recovery + rng.choice([0.0, gen.G, 1.0])]]
        elif init == "near":
            pre = [["fail", "TRANSIENT"]] * (th - 1)
        elif init == "probing":
            # half-open with SOMEONE ELSE's probe in flight: the call under test is rejected - and must leave that probe alone
            pre = [["fail", "TRANSIENT"]] * th + [["adv", recovery + gen.G], ["allow"]]
        sc["cfg"]["breaker"] = {"threshold": th, "window": rng.choice([10.0, 100.0]), "recovery": recovery, "trip_on": trip, "class_thresholds": {}, "pre": pre, "init": init}
        sc["cfg"]["deadline_s"] = rng.choice([1000.0, 1000.0, 2.0])
        if k % 5 == 4:
            sc["cfg"]["no_retry"] = True
        if k % 4 == 1:
            sc["cfg"]["breaker"]["falsy"] = True  # a breaker object whose truth value means "closed"
        if k % 7 == 3:
            sc["op_two_susp"] = True
        if k % 6 == 2:
            sc["cfg"]["breaker"]["epoch"] = 2.0**20  # the breaker reads its own clock, a constant away from time.monotonic()
        if k % 6 == 5:
            # a call that is a long time in flight compared with the breaker's window: slow attempts, several of them
            w_ = rng.choice([1.0, 2.0])
            sc["cfg"]["breaker"]["window"] = w_
            sc["cfg"]["deadline_s"] = 1000.0
            c = sc["calls"][0]
            c["durations"] = [rng.choice([w_ / 2, w_, w_ + gen.G, 2 * w_]) for _ in c["durations"]]
        # make long failing scripts common so that many callbacks are reached
        if rng.random() < 0.6:
            c = sc["calls"][0]
            for i in range(len(c["outcomes"]) - 1):
                if c["outcomes"][i][0] == "ok":
                    c["outcomes"][i] = [rng.choice(["exc", "res"]), rng.choice(gen.RETRYABLE), None]
        out.append(sc)
    return out


def how_label(sc, rec):
    f = sc.get("fault")
    if f:
        if f["kind"] == "cb":
            return f"callback-raised:{f['cb']}:{f['exc']}" + (":from-its-answer's-truth-value" if f.get("via") else "")
        if f["kind"] == "throw":
            return f"thrown:{f['exc']}" + (":from-another-thread" if f.get("thread") else "")
        if f["kind"] == "hook":
            return f"hook-raised:{f['hook']}:{f['exc']}"
        if f["kind"] == "breaker":
            return f"interrupted-inside:{f['op']}:{f['exc']}"
    v = View(rec, sc)
    how, s = run_ending(v)
    if how == "special":
        return "op-raised:" + s.out[1]
    if how == "stopped" and s is not None and s.out[0] == "sp":
        return "op-raised:" + s.out[1]
    return "ended:" + how


def judge(ctx, sc, entry, recs, h, world, stats):
    """Apply both oracles to the (single) call of this run."""
    rec = recs[0]
    tr = rec.trace
    allows = [e for e in tr if e[0] == "br.allow"]
    label = how_label(sc, rec)
    fam = entry
    ctx.inc("injected_runs")
    if not allows:
        ctx.inc("not_reached_breaker")
        return
    if not allows[0][1]:
        ctx.inc("rejected_runs")
        told = [e for e in tr if e[0] in ("br.success", "br.failure", "br.cancel")]
        lab = how_label(sc, rec) if sc.get("fault") else "rejected"
        if told:
            ctx.viol("rejected-call-reported:" + lab, f"[{entry}] the call was rejected (state {allows[0][2]}), yet it reported {[e[0] for e in told]} to the breaker ({lab})", common.payload(sc, entry, 0))
        elif sc["cfg"]["breaker"].get("init") == "probing":
            ctx.inc("rejected_while_another_probe_in_flight")
            with env.active(world):
                d = CircuitBreaker.allow(h.breaker)
            if d.allowed:
                ctx.viol("rejected-call-released-another-probe:" + lab, f"[{entry}] the call was rejected while another caller's probe was in flight ({lab}); right afterwards allow() admits a second probe", common.payload(sc, entry, 0))
        return
    ctx.inc("admitted_runs")
    recs_ = [e for e in tr if e[0] in ("br.success", "br.failure", "br.cancel")]
    f = sc.get("fault")
    fired = (f is None) or rec.fault_fired > 0
    if f is not None and not fired:
        ctx.inc("fault_point_not_reached")
    cell = f"{fam}|{label}"
    ctx.add("cells", cell)
    ctx.cnt["settle:" + label.split(":")[0]] += 1
    init = sc["cfg"]["breaker"].get("init")
    if not recs_:
        ctx.viol(
            "breaker-not-told:" + label,
            f"[{entry}] admitted call ({label}; final {rec.final[0]} {type(rec.final[1]).__name__}) ended without any record_success/record_failure/record_cancel; initial breaker state '{init}'",
            common.payload(sc, entry, 0),
        )
    # (a) black-box probe-slot check
    if allows[0][2] == "half_open":
        ctx.inc("probe_runs")
        with env.active(world):
            world.t += sc["cfg"]["breaker"]["recovery"] + 100.0
            d = CircuitBreaker.allow(h.breaker)
        if not d.allowed:
            ctx.viol(
                "probe-slot-leaked:" + label,
                f"[{entry}] call admitted as the half-open probe ended ({label}); recovery_timeout_s + 100 s later allow() still rejects (state {d.state.value}): breaker wedged",
                common.payload(sc, entry, 0),
            )
        else:
            ctx.inc("probe_released_ok")
            why = second_outage(h.breaker, world, sc["cfg"]["breaker"], d)
            ctx.inc("second_outage_continuations")
            if why:
                ctx.viol(
                    "probe-slot-leaked-in-next-outage:" + label,
                    f"[{entry}] call admitted as the half-open probe ended ({label}); the breaker then went through one more outage driven directly (close, {sc['cfg']['breaker']['threshold']} failures, recovery_timeout_s + 1 s): {why}",
                    common.payload(sc, entry, 0),
                )


def second_outage(br, world, bcfg, d):
    """Black box: a slot that looks free now may still be marked taken inside; it shows in the next outage."""
    with env.active(world):
        if d.state.value == "half_open":
            CircuitBreaker.record_success(br)  # our own continuation probe
        if CircuitBreaker.allow(br).state.value != "closed":
            return "after the continuation probe succeeded the breaker is not closed"
        CircuitBreaker.record_success(br)
        for _ in range(bcfg["threshold"]):
            CircuitBreaker.record_failure(br, ErrorClass.TRANSIENT)
        d1 = CircuitBreaker.allow(br)
        if d1.allowed:
            return None  # did not open: C06's business, not a leak
        world.t += bcfg["recovery"] + 1.0
        d2 = CircuitBreaker.allow(br)
        if not d2.allowed:
            return f"allow() after the second recovery timeout rejects (state {d2.state.value}) although nothing is in flight"
        CircuitBreaker.record_success(br)
        d3 = CircuitBreaker.allow(br)
        if not d3.allowed:
            return f"allow() after the second probe succeeded rejects (state {d3.state.value})"
    return None


def run_one(ctx, sc, entry, stats, manual=True):
    recs, h, world = rig.run(sc, entry, manual=manual)
    judge(ctx, sc, entry, recs, h, world, stats)
    return recs


def enumerate_faults(ctx, base, entry, rng, tier, stats):
    """Clean run first, then every injection point discovered from it."""
    clean = run_one(ctx, base, entry, stats)[0]
    counts = clean.counts
    nops = sum(1 for e in clean.trace if e[0] == "op")
    ctx.inc("clean_runs")
    ctx.mx("max_suspension_points", clean.suspensions)
    plans = []
    for cb in CB_NAMES:
        n = counts.get("cb:" + cb, 0)
        kinds = ["RuntimeError", "kbd"]
        if cb == "sleeper":
            kinds = ["RuntimeError", "cancel", "kbd", "sysexit"]
        if tier != "quick":
            kinds = kinds + ["base", "AbortRetryError", "CircuitOpenError"]
        for i in range(n):
            for k in kinds:
                plans.append({"kind": "cb", "cb": cb, "at": i, "exc": k})
        if cb == "abort_if":
            # the predicate returns normally, but its answer raises when the library asks for its truth value
            for i in range(n):
                for k in kinds[:2]:
                    plans.append({"kind": "cb", "cb": cb, "at": i, "exc": k, "via": "bool"})
    # observability hooks are callback invocations too: a KeyboardInterrupt / SystemExit / CancelledError arriving while the
    # library is inside on_metric / on_log / before_sleep (ordinary Exceptions there are C15's business)
    for hk in ("metric", "log", "before_sleep"):
        n = counts.get("hook:" + hk, 0)
        for i in range(n):
            for k in (("kbd", "sysexit", "cancel") if tier != "quick" or i < 3 else ("kbd",)):
                plans.append({"kind": "hook", "hook": hk, "at": i, "exc": k})
    # ... and on EVERY invocation (whatever the library emits while it settles the call is interrupted too)
    for hk in ("metric", "log"):
        if counts.get("hook:" + hk, 0):
            for k in ("kbd", "sysexit"):
                plans.append({"kind": "hook", "hook": hk, "at": "always", "exc": k})
    # an interrupt landing inside the breaker's own record method, before it changed anything: the call still owes its report
    for opn in ("record_success", "record_failure"):
        for k in ("kbd", "sysexit", "cancel"):
            plans.append({"kind": "breaker", "op": opn, "exc": k})
    if entry.startswith("a"):
        plans.append({"kind": "throw", "at": -1, "exc": "never-started", "call": 0})
        for sp in range(clean.suspensions):
            for k in THROW_KINDS:
                plans.append({"kind": "throw", "at": sp, "exc": k, "call": 0})
            # the same ending delivered from ANOTHER OS thread than the one that started (and was admitted with) the call: a loop in
            # a worker thread shut down from the main thread, a coroutine closed by whoever drops it
            for k in ("cancel", "close"):
                plans.append({"kind": "throw", "at": sp, "exc": k, "call": 0, "thread": "other"})
    ctx.inc("injection_points_enumerated", len(plans))
    for f in plans:
        sc = dict(base, fault=f)
        run_one(ctx, sc, entry, stats)
    # operation raising a special exception at each attempt index
    for i in range(max(1, nops)):
        for sp in OP_SPECIALS:
            sc = copy.deepcopy(base)
            outs = sc["calls"][0]["outcomes"]
            while len(outs) <= i:
                outs.append(["ok"])
            outs[i] = ["sp", sp, rng.choice(gen.CLASSES)] if sp in ("nested_open", "nested_exh") else ["sp", sp]
            run_one(ctx, sc, entry, stats)
            ctx.inc("op_special_runs")
    # abort poll at each index
    npolls = counts.get("poll", 0)
    for at in range(npolls + 1):
        sc = copy.deepcopy(base)
        sc["calls"][0]["abort_at"] = at
        run_one(ctx, sc, entry, stats)
        ctx.inc("abort_index_runs")
    return clean


def judge_block(ctx, sc, entry):
    """Several calls on one long-lived policy (through the context-manager entries: inside ONE block, or a block per call): an earlier
    call has long been settled when a later one - admitted as the half-open probe - ends without a verdict.  The slot is free again."""
    recs, h, world = rig.run(sc, entry)
    ctx.inc("runs")
    ctx.inc("calls", len(recs))
    ctx.inc("block_runs")
    last = recs[-1]
    allows = [e for e in last.trace if e[0] == "br.allow"]
    if not allows or not allows[0][1] or allows[0][2] != "half_open":
        ctx.inc("block_runs_whose_last_call_was_not_the_probe")
        return
    ctx.inc("block_probe_runs")
    end = sc["calls"][-1]["outcomes"][0]
    label = "ended:" + (end[1] if end[0] == "sp" else end[0]) + (":poll" if sc["calls"][-1].get("abort_at") is not None else "")
    told = [e for e in last.trace if e[0] in ("br.success", "br.failure", "br.cancel")]
    if not told:
        ctx.viol("breaker-not-told:" + label, f"[{entry}] the last of {len(recs)} calls on one policy was admitted as the half-open probe and ended ({label}; final {last.final[0]} "
                 f"{type(last.final[1]).__name__}) without any record_success/record_failure/record_cancel", common.payload(sc, entry, len(recs) - 1, block=True))
    with env.active(world):
        world.t += sc["cfg"]["breaker"]["recovery"] + 100.0
        d = CircuitBreaker.allow(h.breaker)
    if not d.allowed:
        ctx.viol("probe-slot-leaked:" + label, f"[{entry}] the last of {len(recs)} calls on one policy was the half-open probe and ended ({label}); recovery_timeout_s + 100 s later allow() still "
                 f"rejects (state {d.state.value}): breaker wedged", common.payload(sc, entry, len(recs) - 1, block=True))


def blocks_of_calls(ctx, tier, rng):
    k = 0
    for entry in ENTRIES:
        for first in ("ok", "fail"):
            for end in (["sp", "abort"], ["sp", "nested_open", "TRANSIENT"], ["ok"], ["exc", "TRANSIENT", None], ["ok", "poll"]):
                for shared in (True, False):
                    for retry in (True, False):
                        k += 1
                        if k % ctx.nshards != ctx.shard:
                            continue
                        if not retry and not entry.lstrip("a").startswith("policy."):
                            continue
                        cfg = gen.mk_cfg(max_attempts=2, deadline_s=1000.0)
                        if not retry:
                            cfg["no_retry"] = True
                        # the circuit is open and its timeout has passed: call 0 is a probe that succeeds (closes) or fails (re-opens)
                        cfg["breaker"] = {"threshold": 1, "window": 10.0, "recovery": 5.0, "trip_on": ["TRANSIENT"], "class_thresholds": {}, "init": "expired",
                                          "pre": [["fail", "TRANSIENT"], ["adv", 5.0 + gen.G]]}
                        c0 = gen.mk_call([["ok"]] if first == "ok" else [["exc", "PERMANENT", None]])
                        c1 = gen.mk_call([["exc", "PERMANENT", None]], gap=1.0)  # trips the (closed) circuit, or is rejected by the open one
                        c1["outcomes"] = [["exc", "TRANSIENT", None]] if first == "ok" else [["ok"]]
                        c2 = gen.mk_call([list(end[:3]) if end[0] != "ok" else ["ok"]], gap=5.0 + gen.G)
                        poll = len(end) > 1 and end[1] == "poll"
                        if poll:
                            c2["abort_at"] = 0
                        if first == "fail":
                            # call 0 re-opened the circuit at t0; call 1 comes after the timeout as the probe that closes it; then one more
                            # failure (call 2) opens it, and call 3 is the probe under test
                            c1["gap"] = 5.0 + gen.G
                            c1b = gen.mk_call([["exc", "TRANSIENT", None]], gap=1.0)
                            calls = [c0, c1, c1b, c2]
                        else:
                            calls = [c0, c1, c2]
                        sc = {"cfg": cfg, "place": gen.default_place(), "bs_kind": "sync", "sleeper_kind": "async", "timeline": False, "poll": bool(poll), "calls": calls, "fault": None,
                              "ctx_block_shared": shared}
                        judge_block(ctx, sc, entry)


def work(ctx, tier):
    stats = {}
    rng = common.rng_for(ctx, "main")
    blocks_of_calls(ctx, tier, rng)
    nbase = (200 if tier == "quick" else 2400) // ctx.nshards
    bases = base_scenarios(rng, nbase)
    for k, base in enumerate(bases):
        for entry in ENTRIES:
            clean = enumerate_faults(ctx, base, entry, rng, tier, stats)
            if k == 0 and ctx.shard == 0 and entry in ("policy.execute", "apolicy.call"):
                ctx.sample({"base_scenario": {"cfg": base["cfg"], "call0": base["calls"][0], "place": base["place"]}, "clean_run": common.describe(clean, 25), "suspension_points": clean.suspensions, "callback_invocations": {k_: v for k_, v in clean.counts.items() if k_.startswith("cb:")}})
        ctx.inc("base_scenarios")
    # a slice through the real asyncio loop (no manual driver): special outcomes + callback faults
    for k, base in enumerate(bases[: max(2, len(bases) // 4)]):
        for entry in ("apolicy.call", "apolicy.execute"):
            for sp in OP_SPECIALS[:4] + ["nested_open"]:
                sc = copy.deepcopy(base)
                sc["calls"][0]["outcomes"][0] = ["sp", sp, "TRANSIENT"] if sp == "nested_open" else ["sp", sp]
                run_one(ctx, sc, entry, stats, manual=False)
                ctx.inc("real_loop_runs")
    if ctx.shard == 0:
        seen_exception_objects(ctx)
    # calls that OVERLAP on one breaker (threads; a thread may be parked inside the breaker's critical section): once all have ended,
    # nobody holds the probe slot - the breaker recovers now and in the next outage
    tconc.thread_slice(ctx, tier, common.rng_for(ctx, "threads"), ["wedge", "probe"], budget=False, breaker=True, components=True, long_ops=True)
    common.flush_stats(ctx, stats)


def seen_exception_objects(ctx):
    """The probe ends with an exception OBJECT that the library has met before: the very instance whose earlier raise opened the circuit
    (a client that caches its error), or an error that already passed through another policy with its own (healthy) breaker nested
    inside the operation.  Black box: after the probe has ended and the recovery time has passed again, the next call is admitted."""
    import asyncio

    from redress import AsyncPolicy, AsyncRetry, Policy, Retry

    def mk(is_async, with_retry, br):
        R, P = (AsyncRetry, AsyncPolicy) if is_async else (Retry, Policy)
        retry = R(classifier=lambda e: ErrorClass.TRANSIENT, strategy=lambda c: 0.0, max_attempts=2, deadline_s=1000.0) if with_retry else None
        return P(retry=retry, circuit_breaker=br)

    for is_async in (False, True):
        for with_retry in (False, True):
            for meth in ("call", "execute"):
                for variant in ("stored-instance", "nested-policy"):
                    world = env.World()
                    world.manual = False  # async variants run on a real event loop
                    with env.active(world):
                        br = CircuitBreaker(failure_threshold=1, window_s=10.0, recovery_timeout_s=5.0, trip_on={ErrorClass.TRANSIENT, ErrorClass.UNKNOWN})
                        pol = mk(is_async, with_retry, br)
                        stored = ConnectionError("backend down")
                        inner_br = CircuitBreaker(failure_threshold=50, window_s=10.0, recovery_timeout_s=5.0)
                        inner = mk(is_async, False, inner_br)

                        def fail():
                            if variant == "stored-instance":
                                raise stored
                            raise ConnectionError("backend down")

                        async def afail():
                            fail()

                        if variant == "nested-policy":
                            op = (lambda: inner.call(afail)) if is_async else (lambda: inner.call(fail))
                        else:
                            op = afail if is_async else fail

                        def once():
                            try:
                                r = getattr(pol, meth)(op)
                                if is_async:
                                    loop = asyncio.new_event_loop()
                                    try:
                                        r = loop.run_until_complete(r)
                                    finally:
                                        loop.close()
                                return r
                            except ConnectionError:
                                return "raised"

                        once()  # opens the circuit
                        label = f"{'async' if is_async else 'sync'} Policy.{meth} {'with' if with_retry else 'without'} retry, {variant}"
                        if CircuitBreaker.allow(br).allowed:
                            ctx.inc("seen_exception:first_failure_did_not_open")
                            continue
                        world.t += 5.0 + 1.0 / 64
                        once()  # the probe: fails with an exception object that has been reported before
                        world.t += 5.0 + 100.0
                        d = CircuitBreaker.allow(br)
                        ctx.inc("probes_ending_with_an_exception_object_seen_before")
                        ctx.inc("injected_runs")
                        ctx.add("cells", "seen-exception|" + label)
                        if not d.allowed:
                            ctx.viol("probe-slot-leaked:exception-object-seen-before", f"[{label}] the probe failed with an exception object that had been reported before; recovery_timeout_s + 100 s later allow() still rejects (state {d.state.value}): breaker wedged", {"seen_exception": label})


def conclude(ctx):
    floors = {
        "block_probe_runs": (ctx.cnt["block_probe_runs"], 60),
        "probes_ending_with_an_exception_object_seen_before": (ctx.cnt["probes_ending_with_an_exception_object_seen_before"], 12),
        "probe_runs": (ctx.cnt["probe_runs"], 500),
        "second_outage_continuations": (ctx.cnt["second_outage_continuations"], 400),
        "settle:callback-raised": (ctx.cnt["settle:callback-raised"], 300),
        "settle:thrown": (ctx.cnt["settle:thrown"], 300),
        "settle:op-raised": (ctx.cnt["settle:op-raised"], 200),
        "settle:ended": (ctx.cnt["settle:ended"], 200),
        "settle:hook-raised": (ctx.cnt["settle:hook-raised"], 200),
        "settle:interrupted-inside": (ctx.cnt["settle:interrupted-inside"], 200),
        "rejected_while_another_probe_in_flight": (ctx.cnt["rejected_while_another_probe_in_flight"], 100),
        "distinct (entry, termination) cells": (len(ctx.sets["cells"]), 60),
    }
    floors.update(tconc.floors(ctx, components=True))
    return dict(
        rule=(
            "fault enumeration: per base scenario x 6 breaker-carrying entry points, a clean run discovers callback invocations (classifier, result classifier, strategy, "
            "abort predicate, sleep handler, sleeper, attempt start/end hooks), suspension points and attempts; one injected run per (callback invocation x exception kind), "
            "(suspension point x {CancelledError, KeyboardInterrupt, SystemExit, close()}), (attempt x 8 special exceptions), (abort poll index), "
            "(interrupt landing inside breaker.record_success / record_failure before it acts x 3 kinds); "
            "distinct_nontrivial = distinct (entry, termination kind) cells in which an admitted call was judged" + tconc.RULE
        ),
        evaluations=ctx.cnt["injected_runs"],
        nontrivial=len(ctx.sets["cells"]),
        floors=floors,
        assumptions=common.ASSUME_COMMON + [
            "faults are injected where the property quantifies: operations, callbacks, suspension points - not between two arbitrary bytecodes of the engine",
            "oracle (a) is black-box on the real CircuitBreaker; oracle (b) uses only the public breaker protocol",
        ],
        extra={"cells": sorted(ctx.sets["cells"])[:400]},
        exhaustive=False,
    )


def replay(data):
    p = data["payload"]
    if "tspec" in p:
        return tconc.replay(p)
    if p.get("block"):
        return common.replay_with(data, judge_block)
    if "seen_exception" in p:
        class C:
            bad = []

            def inc(self, *a):
                pass

            def add(self, *a):
                pass

            def viol(self, k, m, pl):
                if pl["seen_exception"] == p["seen_exception"]:
                    self.bad.append(m)

            cnt = {}

        c = C()
        seen_exception_objects(c)
        for m in c.bad:
            print("  !!", m)
        print("replay:", "violation reproduced" if c.bad else "no violation on this tree")
        return 1 if c.bad else 0
    sc, entry = p["scenario"], p["entry"]
    recs, h, world = rig.run(sc, entry)
    rec = recs[0]
    for ev in rec.trace:
        print("   ", ev)
    print("    final:", rec.final)
    told = [e for e in rec.trace if e[0] in ("br.success", "br.failure", "br.cancel")]
    admitted = [e for e in rec.trace if e[0] == "br.allow" and e[1]]
    bad = bool(admitted) and not told
    with env.active(world):
        world.t += sc["cfg"]["breaker"]["recovery"] + 100.0
        d = CircuitBreaker.allow(h.breaker)
    print("    after recovery_timeout_s + 100 s: allow() ->", d)
    if admitted and admitted[0][2] == "half_open" and not d.allowed:
        bad = True
    elif admitted and admitted[0][2] == "half_open":
        why = second_outage(h.breaker, world, sc["cfg"]["breaker"], d)
        print("    one more outage driven directly:", why or "recovers")
        bad = bad or bool(why)
    print("replay:", "violation reproduced" if bad else "no violation on this tree")
    return 1 if bad else 0
