"""C09 - one breaker record per admitted policy call, by final outcome, not per attempt."""

from __future__ import annotations

from .. import gen, oracles as O, rig, tconc
from ..view import View
from . import common

JOBS = {"quick": 4, "thorough": 16}
ENTRIES = ["policy.call", "policy.execute", "policy.ctx", "apolicy.call", "apolicy.execute", "apolicy.ctx"]


def _one(ctx, sc, entry, stats, sample=False):
    recs, h, w = rig.run(sc, entry)
    ctx.inc("runs")
    ctx.inc("calls", len(recs))
    common.check_recs(ctx, sc, entry, recs, [O.o_account], stats)
    for rec in recs:
        v = View(rec, sc)
        how, s = O.run_ending(v)
        spy = [e for e in rec.trace if e[0].startswith("br.")]
        ctx.inc("policy_calls")
        if spy and spy[0][0] == "br.allow" and spy[0][1]:
            kinds = [e[0] for e in spy[1:]]
            ctx.cell("record", "+".join(kinds) or "none", how)
            ctx.add_hash("nontrivial", [sc["cfg"]["breaker"], rec.env["outcomes"], rec.env.get("abort_at"), rec.env.get("handler"), entry, rec.idx])
            if v.nops >= 2:
                ctx.inc("admitted_calls_with_retries")
        elif spy:
            ctx.inc("rejected_calls")
    if sample:
        ctx.sample({"scenario": {"breaker": sc["cfg"]["breaker"], "calls": [c["outcomes"] for c in sc["calls"]]}, "calls": [common.describe(r, 25) for r in recs[:3]]})


def work(ctx, tier):
    stats = {}
    rng = common.rng_for(ctx, "main")
    n = (9000 if tier == "quick" else 250000) // ctx.nshards
    for k in range(n):
        sc = gen.rand_scenario(rng, p_special=0.1, specials=("abort", "nested_exh", "nested_open", "cancel", "kbd", "sysexit", "genexit", "base", "timeout", "timeout"), p_budget=0.25, p_handler=0.35, p_abort=0.2,
                               p_breaker=1.0, ncalls=(1, 6), placements=(k % 6 == 0), falsy_objects=True, poll_kinds=True)
        if k % 8 == 0:
            sc["cfg"]["no_retry"] = True
            if k % 16 == 0:
                # a shutdown flag that goes up WHILE the single attempt is in flight: the predicate answered False before the attempt and
                # would answer True after it - the attempt's own outcome is still what the call ended with
                sc["poll"] = True
                for c in sc["calls"]:
                    c["abort_at"] = None
                    c["abort_after_op"] = 1
                ctx.inc("retryless_scenarios_with_a_flag_raised_during_the_attempt")
        if k % 2 == 0:
            # generous thresholds: several calls are admitted before the circuit opens
            sc["cfg"]["breaker"]["threshold"] = rng.randint(2, 5)
            sc["cfg"]["breaker"]["pre"] = []
        for e in common.pick_entries(rng, ENTRIES, 2):
            _one(ctx, sc, e, stats, sample=(k < 1 and ctx.shard == 0))
        ctx.inc("random_scenarios")
    # raising attempt hooks (observability-style callbacks): whatever the record's kind, an admitted call reports exactly once
    m = (1500 if tier == "quick" else 40000) // ctx.nshards
    for k in range(m):
        sc = gen.rand_scenario(rng, max_attempts=(1, 3), p_special=0.0, p_budget=0.1, p_handler=0.2, p_abort=0.0, p_breaker=1.0, ncalls=(1, 2))
        sc["place"]["hooks"] = rng.choice(["call", "policy", "both"])
        sc["cfg"]["breaker"]["pre"] = rng.choice([[], sc["cfg"]["breaker"]["pre"]])
        if k % 3 == 0:
            sc["cfg"]["no_retry"] = True
        sc["fault"] = {"kind": "cb", "cb": rng.choice(["astart", "aend", "aend", "abort_if"]), "at": rng.choice([0, 1, 2, "always"]), "exc": rng.choice(gen.CB_EXCS)}
        if k % 5 == 3:
            # a caller callback of the backoff phase gives up with AbortRetryError (the documented way to stop retrying from inside user
            # code): however the run delivers it, the call was aborted, not failed
            sc["fault"] = {"kind": "cb", "cb": rng.choice(["sleeper", "handler", "strategy", "aend", "sleeper"]), "at": rng.choice([0, 0, 1]), "exc": "AbortRetryError"}
            if sc["place"].get("handler", "none") == "none" and sc["fault"]["cb"] == "handler":
                sc["place"]["handler"] = "call"
                for c in sc["calls"]:
                    c["handler"] = ["sleep"]
            if sc["place"].get("sleeper") == "none":
                sc["place"]["sleeper"] = "call"
        if k % 5 == 4:
            # an observability hook that fails with an ordinary exception on one of its events (breaker events included): isolated,
            # whatever else the library does with the failure - e.g. under warnings-as-errors (a scenario flag)
            sc["fault"] = {"kind": "hook", "hook": rng.choice(["metric", "log"]), "at": rng.choice([0, 1, 2, 3, "always"]), "exc": rng.choice(["RuntimeError", "HookBoom", "BadStrError", "TypeError"])}
            if k % 2 == 0:
                sc["warnings_as_errors"] = True
            if k % 3 == 0:
                # ... on the circuit_closed event of a probe that succeeds
                br = sc["cfg"]["breaker"]
                br["trip_on"] = ["TRANSIENT"]
                br["class_thresholds"] = {}
                br["pre"] = [["fail", "TRANSIENT"]] * br["threshold"] + [["adv", br["recovery"] + gen.G]]
                for c in sc["calls"]:
                    c["outcomes"] = [["ok"]] * len(c["outcomes"])
            ctx.inc("scenarios_with_a_failing_observability_hook")
        if k % 5 == 0:
            # an interrupt (KeyboardInterrupt / SystemExit / CancelledError) arriving inside an observability hook
            sc["fault"] = {"kind": "hook", "hook": rng.choice(["metric", "log"]), "at": rng.randint(0, 6), "exc": rng.choice(["kbd", "sysexit", "cancel"])}
            if k % 2 == 0:
                # ... inside the hook that receives the `circuit_rejected` event of a call the breaker turns away (open, or half-open with
                # another caller's probe in flight)
                br = sc["cfg"]["breaker"]
                br["trip_on"] = ["TRANSIENT"]
                br["class_thresholds"] = {}
                br["pre"] = [["fail", "TRANSIENT"]] * br["threshold"] + rng.choice([[], [["adv", br["recovery"] + gen.G], ["allow"]]])
                sc["fault"]["at"] = 0
        sc["poll"] = True
        if k % 4 == 0:
            sc["cfg"]["breaker"]["falsy"] = True
        for e in common.pick_entries(rng, ENTRIES, 2):
            recs, h, w = rig.run(sc, e)
            ctx.inc("runs")
            ctx.inc("calls", len(recs))
            for rec in recs:
                spy = [x for x in rec.trace if x[0].startswith("br.")]
                if rec.fault_fired and spy and spy[0][0] == "br.allow" and not spy[0][1]:
                    # a call the breaker REJECTED has nothing to report, whatever happens to its hooks
                    ctx.cnt["rejected_calls_with_a_failing_hook"] += 1
                    if len(spy) > 1:
                        ctx.viol("rejected-call-reported", f"[{e} call#{rec.idx}] the call was rejected (state {spy[0][2]}); {sc['fault'].get('cb') or sc['fault'].get('hook')} raised {sc['fault']['exc']}; it reported {spy[1:]}", common.payload(sc, e, rec.idx))
                    continue
                if not rec.fault_fired or not spy or spy[0][0] != "br.allow" or not spy[0][1]:
                    continue
                n = len(spy) - 1
                ctx.cnt["attempt_hook_fault_calls"] += 1
                if n == 1 and sc["fault"].get("exc") == "AbortRetryError":
                    kind, val = rec.final
                    aborted = (kind == "return" and getattr(getattr(val, "stop_reason", None), "value", None) == "ABORTED") or (kind == "raise" and type(val).__name__ == "AbortRetryError")
                    vv = View(rec, sc)
                    preparing_retry = not sc["cfg"].get("no_retry")
                    if sc["fault"]["cb"] == "aend":
                        # the end hook of an attempt that was going to be retried (its own `decision` argument says so); a hook that raises
                        # after the verdict on the whole call has been given (final failure, success) does not undo that verdict
                        last = [x for x in rec.trace if x[0] in ("aend", "fault")]
                        preparing_retry = preparing_retry and len(last) >= 2 and last[-1][0] == "fault" and last[-2][0] == "aend" and last[-2][3] == "retry"
                    if aborted and preparing_retry and vv.segs and vv.segs[-1].kind in ("exc", "res"):
                        # (a hook that raises after the operation has SUCCEEDED is not an aborted operation: not judged here)
                        ctx.cnt["calls_aborted_from_inside_a_backoff_callback"] += 1
                        if spy[1][0] != "br.cancel":
                            ctx.viol("aborted-call-recorded-as-" + spy[1][0][3:], f"[{e} call#{rec.idx}] {sc['fault']['cb']} raised AbortRetryError and the run ended aborted ({kind} {val!r}), yet the breaker was told {spy[1]}", common.payload(sc, e, rec.idx))
                if n != 1:
                    ctx.viol("multiple-records" if n > 1 else "no-record", f"[{e} call#{rec.idx}] {sc['fault'].get('cb') or sc['fault'].get('hook')} raised {sc['fault']['exc']}; admitted call reported {n} times: {spy[1:]}", common.payload(sc, e, rec.idx))
                elif sc["fault"].get("cb") == "astart" and sc["fault"]["at"] == "always" and not sc["cfg"].get("no_retry"):
                    # every attempt's start hook raises an ordinary error: the call failed (it was neither aborted nor cancelled)
                    kind, val = rec.final
                    aborted = (kind == "return" and getattr(getattr(val, "stop_reason", None), "value", None) == "ABORTED") or (kind == "raise" and type(val).__name__ == "AbortRetryError")
                    ctx.cnt["always_raising_start_hook_calls"] += 1
                    if not aborted and spy[1][0] != "br.failure":
                        ctx.viol("failed-call-recorded-as-" + spy[1][0][3:], f"[{e} call#{rec.idx}] every attempt failed in on_attempt_start ({sc['fault']['exc']}); the call was not aborted, yet the breaker was told {spy[1]}", common.payload(sc, e, rec.idx))
        ctx.inc("attempt_hook_fault_scenarios")
    for i, sc in enumerate(gen.sweep_scenarios(max_len=3, stride=5 if tier == "quick" else 1)):
        if i % ctx.nshards != ctx.shard:
            continue
        sc["cfg"]["breaker"] = {"threshold": 2, "window": 100.0, "recovery": 5.0, "trip_on": ["TRANSIENT", "UNKNOWN", "PERMANENT"], "class_thresholds": {}, "pre": []}
        sc["calls"] = [sc["calls"][0], dict(sc["calls"][0])]
        _one(ctx, sc, ENTRIES[i % len(ENTRIES)], stats)
        ctx.inc("sweep_scenarios")
    # whole calls racing in threads on ONE policy object and ONE breaker: each call's record is its own
    tconc.thread_slice(ctx, tier, common.rng_for(ctx, "threads"), ["breaker", "identity"], budget=False, breaker=True, long_ops=True)
    common.flush_stats(ctx, stats)


def conclude(ctx):
    cells = {k: v for k, v in ctx.cnt.items() if k.startswith("record:")}
    floors = {
        "record:br.success/value": (cells.get("record:br.success/value", 0), 300),
        "record:br.failure/stopped": (cells.get("record:br.failure/stopped", 0), 300),
        "record:br.failure/deferred": (cells.get("record:br.failure/deferred", 0), 30),
        "record:br.cancel/aborted": (cells.get("record:br.cancel/aborted", 0), 100),
        "record:br.cancel/special": (cells.get("record:br.cancel/special", 0), 50),
        "record:br.failure/special": (cells.get("record:br.failure/special", 0), 20),
        "admitted_calls_with_retries": (ctx.cnt["admitted_calls_with_retries"], 500),
        "rejected_calls": (ctx.cnt["rejected_calls"], 200),
        "attempt_hook_fault_calls": (ctx.cnt["attempt_hook_fault_calls"], 200),
        "rejected_calls_with_a_failing_hook": (ctx.cnt["rejected_calls_with_a_failing_hook"], 30),
    }
    floors.update(tconc.floors(ctx))
    return dict(
        rule=(
            "random sequences of 1-6 policy calls sharing one spied real CircuitBreaker (all stop reasons, both causes, handlers, aborts, special exceptions, no-retry policies) over the 6 "
            "breaker-carrying entry points + sweep of outcome strings x cap grids; non-trivial = an admitted call whose record was compared with its scripted final outcome; "
            "cells record:<records seen>/<how the call ended>" + tconc.RULE
        ),
        evaluations=ctx.cnt["calls"],
        nontrivial=len(ctx.sets["nontrivial"]),
        floors=floors,
        assumptions=common.ASSUME_COMMON + [
            "for raising attempt hooks only the count (exactly one record) is asserted, not the kind; other raising non-hook callbacks are C08's business",
            "KF2: call() deliberately ignores a final nested CircuitOpenError (recognised only by that mechanism)",
        ],
        exhaustive=False,
    )


def replay(data):
    return common.replay_trace(data, [O.o_account])
