"""C10 - shared retry budget: at most max_retries retries per rolling window.

(1) direct histories on the real Budget next to the shadow BudgetModel (bounded-exhaustive +
random), with an independent sliding-window sweep over the grant log;
(2) policy workloads: several real Retry/AsyncRetry policies sharing one spied Budget, failing
repeatedly while the virtual clock advances; tokens <-> retry events correspondence and the
window bound on the retry events themselves; async calls interleaved by the coroutine driver.
"""

from __future__ import annotations

import bisect
import itertools

from .. import env, tconc
from ..models import BudgetModel
from . import common

env.import_redress()

from redress import AsyncPolicy, AsyncRetry, AsyncRetryPolicy, Budget, CircuitBreaker, CircuitOpenError, Classification, ErrorClass, Policy, Retry, RetryExhaustedError, RetryPolicy  # noqa: E402

JOBS = {"quick": 4, "thorough": 16}
G = 1.0 / 64.0
EC = ErrorClass


def window_violations(times, window, max_tokens):
    """Any half-open interval (t - w, t] holding more than max_tokens grant instants? times sorted."""
    worst = 0
    for i, t in enumerate(times):
        lo = bisect.bisect_right(times, t - window)
        n = i - lo + 1
        # tokens with the same timestamp as t but later in the list also lie in (t-w, t]
        hi = bisect.bisect_right(times, t)
        n = hi - lo
        worst = max(worst, n)
    return worst


def alphabet(w):
    return [("consume", 1), ("consume", 2), ("consume", 3), ("remaining",), ("adv", G), ("adv", w - G), ("adv", w), ("adv", w + G), ("adv", 0.0)]


def run_direct(ctx, mx, w, ops, world, viol):
    world.t = 1024.0
    real = Budget(max_retries=mx, window_s=w)
    model = BudgetModel(mx, w)
    grants = []
    hist = {"max_retries": mx, "window_s": w, "ops": [list(o) for o in ops]}
    relimited = False
    for op in ops:
        now = world.t
        if op[0] == "adv":
            world.t += op[1]
            continue
        if op[0] == "setmax":
            # the operator changes the limit of a live (shared) budget: a public attribute, effective from the next request on
            real.max_retries = op[1]
            model.max = op[1]
            mx = op[1]
            relimited = True
            ctx.cnt["op:limit_changed_on_a_live_budget"] += 1
            continue
        if op[0] == "remaining":
            got = real.remaining()
            want = model.remaining(now)
            if got not in want:
                viol("remaining-disagrees-with-model", f"remaining() -> {got}, model allows {sorted(want)} at t={now} (grants {model.grants})", hist)
                return False
            ctx.cnt["op:remaining"] += 1
            continue
        cost = op[1]
        lo, hi = model.live(now)
        got = real.consume(cost)
        want = model.consume(now, cost)
        if len(want) > 1:
            ctx.cnt["dont_care:window-boundary"] += 1
        if got not in want:
            key = "over-grant" if got else "refused-although-capacity"
            viol(key, f"consume({cost}) -> {got} at t={now}; live tokens {lo}..{hi}, max {mx}; model allows {sorted(want)}; grants {model.grants}", hist)
            return False
        model.commit(now, cost, got)
        if got:
            grants.extend([now] * cost)
            ctx.cnt["grants"] += cost
        else:
            ctx.cnt["refusals"] += 1
            if lo + cost > mx:
                ctx.cnt["refusals_justified_strictly"] += 1
        ctx.add("cells", f"live={lo}/cost={cost}/max={mx}/{'grant' if got else 'refuse'}")
        ctx.cnt["op:consume"] += 1
        # partial grants: after the call remaining must have dropped by exactly cost or not at all
        rem = real.remaining()
        if rem not in model.remaining(now):
            viol("partial-grant", f"after consume({cost}) -> {got}: remaining() = {rem}, model allows {sorted(model.remaining(now))}", hist)
            return False
    worst = 0 if relimited else window_violations(sorted(grants), w, mx)  # one limit for the whole history: the plain window count applies too
    ctx.mx("max_tokens_seen_in_a_window", worst)
    if worst > mx:
        viol("window-bound-exceeded", f"{worst} tokens inside one window of {w}s (max_retries {mx}); grant log {grants}", hist)
        return False
    ctx.cnt["steps"] += len(ops)
    ctx.cnt["histories"] += 1
    return True


class Shared:
    """Several real policies sharing one spied real Budget."""

    def __init__(self, spec, world, ctx):
        self.spec = spec
        self.world = world
        self.log = []  # (kind, t, call_id, extra)
        self.cur = None
        me = self

        class Spy(Budget):
            def consume(s, cost=1, *a, **kw):
                r = super().consume(cost, *a, **kw)
                me.log.append(("consume", world.t, me.cur, cost, r))
                return r

        if spec.get("falsy"):
            # a Budget subclass exposing "tokens in use" through __len__: falsy while it reports none, still the configured budget
            class Spy(Spy):  # noqa: F811
                def __len__(s):
                    return 0

        self.budget = Spy(max_retries=spec["max"], window_s=spec["window"])
        self.policies = []
        for p in spec["policies"]:
            cls = AsyncRetry if p["async"] else Retry
            kind = p.get("kind", "retry")
            if kind == "rp":
                cls = AsyncRetryPolicy if p["async"] else RetryPolicy
            hint = p.get("hint", "bare")
            klass = EC[p.get("klass", "TRANSIENT")]
            if hint == "bare":
                clf = (lambda k: (lambda e: k))(klass)
            else:
                clf = (lambda k, h: (lambda e: Classification(klass=k, retry_after_s=h)))(klass, None if hint == "none" else float(hint))
            late = p.get("attach") == "attr"  # the shared budget is attached by attribute assignment after construction
            rcl = (lambda c: (lambda r: c(r) if r == "bad" else None))(clf)
            def mk_strat(d, took):
                def strat(c):
                    # a strategy that takes time to answer (it consults a rate-limit service): the token is taken when the retry is
                    # granted, i.e. at the clock reading of that moment
                    world.t += took
                    return d

                return strat

            strat = mk_strat(p["delay"], p.get("strategy_takes", 0.0))
            if p.get("attach") == "config":
                # the bundle route: each of the four from_config twins must carry the budget over
                from redress import RetryConfig

                conf = RetryConfig(deadline_s=p.get("deadline", 100000.0), max_attempts=p["max_attempts"], max_unknown_attempts=None, default_strategy=strat, result_classifier=rcl, budget=self.budget)
                pol = cls.from_config(conf, classifier=clf)
                ctx.cnt["policies_built_by:" + cls.__name__ + ".from_config"] += 1
            else:
                pol = cls(classifier=clf, result_classifier=rcl, strategy=strat, budget=None if late else self.budget,
                          max_attempts=p["max_attempts"], deadline_s=p.get("deadline", 100000.0), max_unknown_attempts=None)
            if late:
                pol.budget = self.budget
            if kind == "policy":
                brk = None
                if p.get("breaker"):
                    # the policy also has a circuit breaker, one that trips and recovers well inside the budget's window: what the
                    # breaker goes through is no business of the budget's
                    brk = CircuitBreaker(failure_threshold=p["breaker"], window_s=spec["window"], recovery_timeout_s=spec["window"] / 8, trip_on={klass})
                    ctx.cnt["shared_policies_with_a_breaker"] += 1
                pol = (AsyncPolicy if p["async"] else Policy)(retry=pol, circuit_breaker=brk)
            self.policies.append(pol)

    def metric(self, cid):
        def on_metric(event, attempt, sleep_s, tags):
            self.log.append(("event", self.world.t, cid, event, attempt))

        return on_metric


def run_shared(ctx, spec, rng, viol):
    world = env.World()
    with env.active(world):
        sh = Shared(spec, world, ctx)
        model = BudgetModel(spec["max"], spec["window"])
        calls = spec["calls"]
        coros = {}
        nops = {}

        def mk_op(cid, dur, is_async, by_result=False):
            def body():
                nops[cid] = nops.get(cid, 0) + 1
                sh.log.append(("op", world.t, cid, nops[cid]))
                world.t += dur
                if calls[cid].get("succeed"):
                    return "fine"
                if by_result:
                    return "bad"
                raise RuntimeError("always failing")

            if is_async:
                async def aop():
                    await env.Suspend("op")
                    sh.cur = cid
                    body()

                return aop
            return body

        def mk_sleeper(cid, is_async):
            early = calls[cid].get("early_sleeper")  # a sleeper that comes back after half the delay (woken up, coarse timer)

            if is_async:
                async def asl(s):
                    await env.Suspend("sleep")
                    sh.cur = cid
                    world.t += s / 2 if early else s

                return asl

            def sl(s):
                world.t += s / 2 if early else s

            return sl

        # sequential sync calls and interleaved async calls, in the scripted order
        def mk_abort(c):
            at = c.get("abort_at")
            if at is None:
                return None
            n = [0]

            def abort_if():
                n[0] += 1
                return n[0] > at

            return abort_if

        from redress import AbortRetryError

        pending = []
        sched = []
        replay_sched = list(spec.get("_sched") or [])
        for cid, c in enumerate(calls):
            pol = sh.policies[c["policy"]]
            is_async = spec["policies"][c["policy"]]["async"]
            world.t += c["gap"]
            if not is_async:
                sh.cur = cid
                try:
                    pol.call(mk_op(cid, c["dur"], False, c.get("by_result", False)), on_metric=sh.metric(cid), sleeper=mk_sleeper(cid, False), abort_if=mk_abort(c))
                except (RuntimeError, RetryExhaustedError, AbortRetryError, CircuitOpenError):
                    pass
            else:
                pending.append((cid, pol.call(mk_op(cid, c["dur"], True, c.get("by_result", False)), on_metric=sh.metric(cid), sleeper=mk_sleeper(cid, True), abort_if=mk_abort(c))))
                if len(pending) >= c.get("batch", 2):
                    drain(sh, pending, rng, sched, replay_sched)
                    pending = []
        drain(sh, pending, rng, sched, replay_sched)
    # ---- oracle over the global log
    hist = {"spec": dict(spec, _sched=sched)}
    grants = []
    for ev in sh.log:
        if ev[0] == "consume":
            _, t, cid, cost, ok = ev
            want = model.consume(t, cost)
            if ok not in want:
                lo, hi = model.live(t)
                viol("over-grant" if ok else "refused-although-capacity", f"[shared] consume({cost}) -> {ok} at t={t}; live {lo}..{hi} of {spec['max']}", hist)
                return False
            model.commit(t, cost, ok)
            if ok:
                grants.extend([t] * cost)
        elif ev[0] == "event" and ev[3] == "budget_exhausted":
            # justified by the state of the window itself, however the engine learnt it (a refused consume(), remaining(), ...)
            if model.consume(ev[1], 1) == {True}:
                lo, hi = model.live(ev[1])
                viol("exhausted-although-capacity", f"[shared] call {ev[2]}: budget_exhausted reported at t={ev[1]} while only {hi} of {spec['max']} tokens were live", hist)
                return False
            ctx.cnt["policy_refusals"] += 1
    # per call and attempt: tokens <-> retry events
    by = {}
    for ev in sh.log:
        cid = ev[2]
        by.setdefault(cid, []).append(ev)
    retry_times = []
    for cid, evs in by.items():
        seg = None
        segs = []
        for ev in evs:
            if ev[0] == "op":
                seg = {"grants": 0, "refused": 0, "retry": 0, "exhausted": 0, "attempt": ev[3]}
                segs.append(seg)
            elif seg is not None:
                if ev[0] == "consume":
                    if ev[4]:
                        seg["grants"] += ev[3]
                    else:
                        seg["refused"] += 1
                elif ev[0] == "event" and ev[3] == "retry":
                    seg["retry"] += 1
                    retry_times.append(ev[1])
                elif ev[0] == "event" and ev[3] == "budget_exhausted":
                    seg["exhausted"] += 1
        for s in segs:
            ctx.cnt["policy_segments"] += 1
            if s["grants"] != s["retry"]:
                viol("token-retry-mismatch", f"[shared] call {cid} attempt {s['attempt']}: {s['grants']} token(s) granted but {s['retry']} retry event(s)", hist)
                return False
            if s["refused"] and not s["exhausted"]:
                viol("refusal-not-reported", f"[shared] call {cid} attempt {s['attempt']}: consume() refused but no budget_exhausted event", hist)
                return False
            ctx.cnt["policy_retries"] += s["retry"]
    worst = window_violations(sorted(retry_times), spec["window"], spec["max"])
    ctx.mx("max_retries_seen_in_a_window", worst)
    if worst > spec["max"]:
        viol("retry-window-bound-exceeded", f"[shared] {worst} retries granted inside one window of {spec['window']}s (max_retries {spec['max']})", hist)
        return False
    if worst == spec["max"] and spec["max"] > 0:
        ctx.cnt["windows_filled_exactly"] += 1
    ctx.cnt["shared_runs"] += 1
    ctx.cnt["steps"] += len(sh.log)
    return True


def drain(sh, pending, rng, sched, replay_sched):
    """Interleave the pending coroutines (randomly, or following a recorded schedule) until all finish."""
    live = dict(pending)
    while live:
        cid = None
        if replay_sched:
            cid = replay_sched.pop(0)
        if cid not in live:
            cid = rng.choice(sorted(live))
        sched.append(cid)
        sh.cur = cid
        try:
            live[cid].send(None)
        except StopIteration:
            del live[cid]
        except (RuntimeError, RetryExhaustedError):
            del live[cid]
        except Exception as x:  # noqa: BLE001
            if type(x).__name__ not in ("AbortRetryError", "CircuitOpenError"):
                raise
            del live[cid]
    sh.cur = None


def gen_shared(rng):
    mx = rng.randint(0, 5)
    w = rng.choice([1.0, 2.0, 10.0])
    npol = rng.randint(2, 4)
    pols = [{"async": rng.random() < 0.5, "delay": rng.choice([0.0, G, w / 4, w / 2, w - G, w, w + G]), "max_attempts": rng.randint(2, 5),
             "hint": rng.choice(["bare", "bare", "none", "0.0", "0.5", "30.0"]), "klass": rng.choice(["TRANSIENT", "RATE_LIMIT", "SERVER_ERROR", "UNKNOWN", "CONCURRENCY"]),
             "kind": rng.choice(["retry", "retry", "rp", "policy"]), "attach": rng.choice(["ctor", "ctor", "attr", "config"]), "deadline": rng.choice([100000.0, 100000.0, w, 2 * w, w / 2]), "strategy_takes": rng.choice([0.0, 0.0, 0.0, G, w / 2, w - G])} for _ in range(npol)]
    calls = [{"policy": rng.randrange(npol), "gap": rng.choice([0.0, 0.0, G, w / 2, w - G, w, w + G]), "dur": rng.choice([0.0, G, w / 4]), "batch": rng.randint(1, 3), "by_result": rng.random() < 0.3,
              "abort_at": rng.randint(0, 6) if rng.random() < 0.25 else None, "early_sleeper": rng.random() < 0.3} for _ in range(rng.randint(3, 10))]
    for p_ in pols:
        if p_["kind"] == "policy" and rng.random() < 0.6:
            p_["breaker"] = rng.randint(1, 2)
    for c_ in calls:
        c_["succeed"] = rng.random() < 0.25
        if rng.random() < 0.3:
            c_["gap"] = rng.choice([w / 8, w / 8 + G, w / 4])  # around the recovery timeout of a policy's breaker
    return {"max": mx, "window": w, "policies": pols, "calls": calls, "falsy": rng.random() < 0.25}


def work(ctx, tier):
    rng = common.rng_for(ctx, "main")
    world = env.World()

    def viol(key, msg, hist):
        ctx.viol(key, msg, {"history": hist})

    with env.active(world):
        L = 5 if tier == "quick" else 7
        i = 0
        for mx in (0, 1, 2, 3):
            w = 1.0
            alpha = alphabet(w)
            for n in range(1, L + 1):
                if n < L and ctx.shard != 0:
                    continue
                for ops in itertools.product(alpha, repeat=n):
                    i += 1
                    if n == L and i % ctx.nshards != ctx.shard:
                        continue
                    run_direct(ctx, mx, w, ops, world, viol)
        n = (4000 if tier == "quick" else 150000) // ctx.nshards
        for k in range(n):
            mx = rng.randint(0, 6)
            w = rng.choice([1.0, 2.0, 0.5, 10.0])
            alpha = alphabet(w) + [("consume", 1)] * 3 + [("adv", w / 2), ("adv", 3 * w)]
            if k % 5 == 2:
                # instants that are not multiples of the grid: a request a fraction of a millisecond before / after a token's expiry,
                # and (legal) windows shorter than a millisecond
                e = rng.choice([2.0**-11, 2.0**-13, 2.0**-16])
                if k % 10 == 2:
                    w = rng.choice([2.0**-11, 2.0**-12, 0.0007])
                    e = w / rng.choice([4.0, 8.0, 64.0])
                alpha = [("consume", 1)] * 4 + [("consume", 2), ("consume", 3), ("remaining",), ("adv", 0.0), ("adv", w), ("adv", e), ("adv", w - e), ("adv", w + e), ("adv", max(w - 3 * e, 0.0)), ("adv", 0.3)]
                ctx.cnt["histories_with_off_grid_instants"] += 1
            if k % 4 == 3:
                alpha = alpha + [("setmax", rng.randint(0, 8)), ("setmax", mx + rng.randint(1, 4))]
            ops = rng.choices(alpha, k=50)
            run_direct(ctx, mx, w, ops, world, viol)
            ctx.cnt["random_histories"] += 1
            if k < 1 and ctx.shard == 0:
                ctx.sample({"direct_history": {"max_retries": mx, "window_s": w, "ops": [list(o) for o in ops[:25]]}})
        ctx.cnt["clock_reads"] += world.hits["mono"]
    m = (6000 if tier == "quick" else 100000) // ctx.nshards
    for k in range(m):
        spec = gen_shared(rng)
        run_shared(ctx, spec, rng, viol)
        if k < 1 and ctx.shard == 0:
            ctx.sample({"shared_budget_workload": spec})
    # whole sync calls racing in threads on one Budget (check-then-act on the shared window shows only here)
    tconc.thread_slice(ctx, tier, common.rng_for(ctx, "threads"), ["tokens"], budget=True, breaker=False, components=True)
    if tier != "quick":
        common.repo_suite_under_monitors(ctx, "budget")


def conclude(ctx):
    floors = {
        "histories_with_off_grid_instants": (ctx.cnt["histories_with_off_grid_instants"], 100),
        "op:limit_changed_on_a_live_budget": (ctx.cnt["op:limit_changed_on_a_live_budget"], 200),
        "grants": (ctx.cnt["grants"], 5000),
        "refusals": (ctx.cnt["refusals"], 5000),
        "refusals_justified_strictly": (ctx.cnt["refusals_justified_strictly"], 1000),
        "dont_care:window-boundary": (ctx.cnt["dont_care:window-boundary"], 100),
        "distinct (live, cost, max, answer) cells": (len(ctx.sets["cells"]), 40),
        "policy_retries": (ctx.cnt["policy_retries"], 2000),
        "policy_refusals": (ctx.cnt["policy_refusals"], 500),
        "windows_filled_exactly": (ctx.cnt["windows_filled_exactly"], 100),
        "clock_reads": (ctx.cnt["clock_reads"], 1000),
    }
    floors.update(tconc.floors(ctx, components=True))
    L = 5 if ctx.tier == "quick" else 7
    return dict(
        rule=(
            f"direct: every history of length <= {L} over {{consume(1|2|3), remaining(), advance 0|step|w-step|w|w+step}} for max_retries 0..3 + random 50-step histories (max_retries 0..6, "
            "4 windows); every consume()/remaining() answer of the real Budget is compared with the shadow model and the grant log is swept for any window holding more than max_retries tokens; "
            "policy level: 2-4 real Retry/AsyncRetry policies (sync calls sequential, async calls interleaved at random by the coroutine driver) sharing one spied Budget and failing repeatedly while the "
            "clock advances grant by grant; distinct_nontrivial = distinct (live tokens, cost, max, answer) cells" + tconc.RULE
        ),
        evaluations=ctx.cnt["steps"],
        nontrivial=len(ctx.sets["cells"]),
        floors=floors,
        assumptions=[
            "the 15-line BudgetModel (rv/models.py) is the specification; a token whose age equals window_s exactly is don't-care",
            "Budget reads time through time.monotonic (module attribute), interposed before import",
            "a retry is identified by its `retry` event; its timestamp is the virtual instant of the event",
        ],
        extra={"histories": ctx.cnt["histories"], "shared_runs": ctx.cnt["shared_runs"], "max_tokens_seen_in_a_window": ctx.maxs.get("max_tokens_seen_in_a_window"), "max_retries_seen_in_a_window": ctx.maxs.get("max_retries_seen_in_a_window")},
        exhaustive=False,
    )


def replay(data):
    import collections
    import random

    h = data["payload"]["history"]
    bad = []

    class C:
        cnt = collections.Counter()
        maxs = {}

        def add(self, *a):
            pass

        def mx(self, *a):
            pass

    def viol(k, m, hh):
        bad.append((k, m))

    if "spec" in h:
        run_shared(C(), h["spec"], random.Random(0), viol)
    else:
        world = env.World()
        with env.active(world):
            run_direct(C(), h["max_retries"], h["window_s"], [tuple(o) for o in h["ops"]], world, viol)
    for k, m in bad:
        print("  !!", k, m)
    print("replay:", "violation reproduced" if bad else "no violation on this tree (shared workloads with async interleaving replay with a fixed seed)")
    return 1 if bad else 0
