"""C11 - execute() returns a faithful RetryOutcome and does not raise for failures."""

from __future__ import annotations

import copy

from .. import gen, oracles as O, rig, tconc
from ..view import View
from . import common

JOBS = {"quick": 4, "thorough": 16}
PROPAGATING_CBS = ("classifier", "rclassifier", "strategy", "sleeper")


def _one(ctx, sc, entry, stats, sample=False):
    recs, h, w = rig.run(sc, entry)
    ctx.inc("runs")
    ctx.inc("calls", len(recs))
    f = sc.get("fault")
    prop = bool(f and f.get("kind") == "cb")
    if prop and f["cb"] == "astart" and f["exc"] == "AbortRetryError":
        prop = False  # a cooperative abort raised by the attempt-start hook must be REPORTED (ABORTED outcome), not propagated

    def orc(v, st):
        return O.o_outcome(v, st, propagating=prop)

    orc.__code__ = (lambda v, st: None).__code__ if False else orc.__code__
    for rec in recs:
        v = View(rec, sc)
        for key, msg in O.o_outcome(v, stats, propagating=prop and rec.fault_fired > 0):
            ctx.viol(key, f"[{entry} call#{rec.idx}] {msg}", common.payload(sc, entry, rec.idx))
        how, s = O.run_ending(v)
        lf = v.last_failed()
        kind, val = rec.final
        sr = getattr(getattr(val, "stop_reason", None), "value", None) if kind == "return" else "raised"
        ctx.cell("outcome", how, sr or "-", lf.cause if lf else "-", "async" if entry.startswith("a") else "sync")
        if how == "aborted" and any(e_[0] == "fault" and e_[1] == "astart" for e_ in rec.trace):
            ctx.cell("abort_position", "start-hook")
        elif how == "aborted" and s is not None:
            # where in the segment did the abort come from
            pos = next((i for i, p in enumerate(s.polls) if p[2]), None)
            ctx.cell("abort_position", "op-raised" if s.kind == "sp" else ("handler" if pos is None else f"poll#{pos}-after-failure"))
        if kind == "return" and not getattr(val, "ok", True):
            ctx.add_hash("nontrivial", [sc["cfg"], rec.env["outcomes"], rec.env.get("handler"), rec.env.get("abort_at"), entry])
        if prop and rec.fault_fired and kind == "raise":
            ctx.inc("caller_callback_errors_propagated")
    if sample:
        ctx.sample({"scenario": {"cfg": sc["cfg"], "call0": sc["calls"][0]}, **common.describe(recs[0], 30)})


def work(ctx, tier):
    stats = {}
    rng = common.rng_for(ctx, "main")
    entries = rig.EXECUTE_ENTRIES
    for i, sc in enumerate(gen.sweep_scenarios(max_len=3 if tier == "quick" else 4, stride=3 if tier == "quick" else 1)):
        if i % ctx.nshards != ctx.shard:
            continue
        sc["timeline"] = [False, True, "obj"][i % 3]
        _one(ctx, sc, entries[i % len(entries)], stats)
        ctx.inc("sweep_scenarios")
    n = (9000 if tier == "quick" else 250000) // ctx.nshards
    for k in range(n):
        sc = gen.rand_scenario(rng, p_special=0.08, specials=("abort", "nested_exh", "nested_open", "cancel", "kbd", "sysexit", "timeout", "timeout"), p_attempt_timeout=0.15, p_budget=0.3, p_handler=0.4, p_abort=0.3, p_breaker=0.3, ncalls=(1, 2), placements=(k % 5 == 0), p_res_none=0.2, p_exc_same=0.1, poll_kinds=True, p_strategy_objects=0.3, slow_hooks=(k % 3 == 1), rf_time=True)
        if k % 9 == 0:
            sc["cfg"]["no_retry"] = True
        for e in common.pick_entries(rng, entries, 3):
            _one(ctx, sc, e, stats, sample=(k < 2 and ctx.shard == 0))
        ctx.inc("random_scenarios")
    # abort at every poll index (systematic) for a few fixed shapes
    shapes = [
        [["exc", "TRANSIENT", None], ["res", "SERVER_ERROR", None], ["exc", "CONCURRENCY", None], ["ok"]],
        [["res", "RATE_LIMIT", None], ["exc", "TRANSIENT", None], ["exc", "PERMANENT", None]],
        [["exc", "UNKNOWN", None], ["exc", "UNKNOWN", None], ["res", "UNKNOWN", None], ["ok"]],
    ]
    for si, outs in enumerate(shapes):
        for at in range(0, 12):
            for handler in (None, ["sleep", "sleep", "sleep"]):
                if (si * 100 + at) % ctx.nshards != ctx.shard:
                    continue
                place = gen.default_place()
                if handler:
                    place["handler"] = "call"
                sc = {"cfg": gen.mk_cfg(max_attempts=4), "place": place, "bs_kind": "sync", "sleeper_kind": "async", "timeline": True, "poll": True,
                      "calls": [gen.mk_call(copy.deepcopy(outs), abort_at=at, handler=handler)], "fault": None}
                for e in entries:
                    _one(ctx, sc, e, stats)
                ctx.inc("systematic_abort_scenarios")
    # the caller's own strategy/classifier/sleeper raising: allowed to propagate, nothing else may
    m = (600 if tier == "quick" else 15000) // ctx.nshards
    for k in range(m):
        sc = gen.rand_scenario(rng, p_special=0.0, p_budget=0.2, p_handler=0.3, p_abort=0.0)
        sc["fault"] = {"kind": "cb", "cb": rng.choice(PROPAGATING_CBS), "at": rng.randint(0, 2), "exc": rng.choice(gen.CB_EXCS)}
        for e in common.pick_entries(rng, entries, 2):
            _one(ctx, sc, e, stats)
        ctx.inc("callback_fault_scenarios")
    # a backoff-phase callback gives up with AbortRetryError: execute() may let it propagate or report ABORTED, but never an outcome
    # that miscounts the invocations
    m3 = (500 if tier == "quick" else 12000) // ctx.nshards
    for k in range(m3):
        sc = gen.rand_scenario(rng, p_special=0.0, p_budget=0.2, p_handler=0.5, p_abort=0.0, p_breaker=0.3)
        sc["place"]["hooks"] = rng.choice(["call", "policy", "both"])
        sc["fault"] = {"kind": "cb", "cb": rng.choice(["sleeper", "handler", "strategy", "aend", "sleeper"]), "at": rng.choice([0, 0, 1]), "exc": "AbortRetryError"}
        if sc["place"].get("sleeper") == "none":
            sc["place"]["sleeper"] = "call"
        pool = [e for e in entries if e.lstrip("a").startswith("policy")] if sc["cfg"].get("breaker") else entries
        for e in common.pick_entries(rng, pool, 3):
            _one(ctx, sc, e, stats)
        ctx.inc("backoff_callback_abort_scenarios")
    # cooperative abort raised by on_attempt_start before attempt k: reported as ABORTED, attempts = invocations so far
    m2 = (500 if tier == "quick" else 12000) // ctx.nshards
    for k in range(m2):
        sc = gen.rand_scenario(rng, p_special=0.0, p_budget=0.2, p_handler=0.2, p_abort=0.0)
        sc["place"]["hooks"] = rng.choice(["call", "policy", "both"])
        sc["fault"] = {"kind": "cb", "cb": "astart", "at": rng.randint(0, 3), "exc": "AbortRetryError"}
        if k % 5 == 4:
            # a policy without a retry component: the one attempt it makes can be called off by its start hook, too
            sc["cfg"]["no_retry"] = True
            sc["fault"]["at"] = 0
            ctx.inc("start_hook_abort_scenarios_without_retry")
        for e in common.pick_entries(rng, entries, 3):
            _one(ctx, sc, e, stats)
        ctx.inc("start_hook_abort_scenarios")
    common.crossing_slice(ctx, tier, common.rng_for(ctx, "crossing"), lambda sc, e: _one(ctx, sc, e, stats), entries=entries)
    # degenerate configuration max_attempts=0: execute() still returns an outcome, and a failed outcome says why retries stopped
    for e in rig.EXECUTE_ENTRIES:
        if hash(e) % ctx.nshards != ctx.shard:
            continue
        for tl in (False, True):
            sc = {"cfg": gen.mk_cfg(max_attempts=0), "place": gen.default_place(), "bs_kind": "sync", "sleeper_kind": "async", "timeline": tl, "poll": False, "calls": [gen.mk_call([["ok"]])], "fault": None}
            recs, h, w = rig.run(sc, e)
            ctx.inc("runs")
            ctx.inc("calls")
            ctx.inc("zero_attempt_runs")
            kind, val = recs[0].final
            if kind != "return":
                ctx.viol("execute-raised:" + type(val).__name__, f"[{e}] max_attempts=0: execute() raised {val!r}", common.payload(sc, e, 0))
            elif val.ok or val.attempts != 0 or val.stop_reason is None or val.value is not None:
                ctx.viol("outcome-wrong-stop-reason" if val.stop_reason is None else "outcome-wrong-attempts", f"[{e}] max_attempts=0: outcome ok={val.ok} attempts={val.attempts} stop_reason={val.stop_reason} value={val.value!r}: a failed outcome must say why retries stopped", common.payload(sc, e, 0))
    # whole calls racing in threads on shared components (budget, one adaptive() strategy object): execute() still returns an outcome
    tconc.thread_slice(ctx, tier, common.rng_for(ctx, "threads"), ["escape", "identity"], budget=True, breaker=False, components=True)
    if ctx.shard == 0:
        from . import hang

        hang.hung_attempt_runs(ctx, "C11")
    common.flush_stats(ctx, stats)


def conclude(ctx):
    cells = {k: v for k, v in ctx.cnt.items() if k.startswith("outcome:")}
    floors = {}
    for r in ["MAX_ATTEMPTS_GLOBAL", "MAX_ATTEMPTS_PER_CLASS", "MAX_UNKNOWN_ATTEMPTS", "NON_RETRYABLE_CLASS", "DEADLINE_EXCEEDED", "NO_STRATEGY", "BUDGET_EXHAUSTED"]:
        for cause in ("exception", "result"):
            for fam in ("sync", "async"):
                floors[f"stopped/{r}/{cause}/{fam}"] = (cells.get(f"outcome:stopped/{r}/{cause}/{fam}", 0), 8)
    for fam in ("sync", "async"):
        floors[f"deferred/{fam}"] = (sum(v for k, v in cells.items() if k.startswith("outcome:deferred/SCHEDULED/") and k.endswith(fam)), 20)
        floors[f"aborted/{fam}"] = (sum(v for k, v in cells.items() if k.startswith("outcome:aborted/ABORTED/") and k.endswith(fam)), 50)
        floors[f"value/{fam}"] = (sum(v for k, v in cells.items() if k.startswith("outcome:value/") and k.endswith(fam)), 100)
    floors["caller_callback_errors_propagated"] = (ctx.cnt["caller_callback_errors_propagated"], 20)
    floors["outcomes_checked"] = (ctx.cnt["outcomes_checked"], 3000)
    floors["hung_attempt_runs"] = (ctx.cnt["hung_attempt_runs"], 6)
    floors["abort_position:start-hook"] = (ctx.cnt["abort_position:start-hook"], 30)
    common.crossing_floors(ctx, floors)
    floors.update(tconc.floors(ctx, components=True))
    return dict(
        rule=(
            "sweep + random mixed histories + systematic abort-at-every-poll-index over the 6 execute() entry points, incl. no-retry policies, breaker rejections, "
            "special exceptions and raising caller callbacks; non-trivial = a not-ok outcome was returned and checked field by field; distinct = distinct (config, script, handler, abort index, entry)"
        ),
        evaluations=ctx.cnt["calls"],
        nontrivial=len(ctx.sets["nontrivial"]),
        floors=floors,
        assumptions=common.ASSUME_COMMON + [
            "Policy(retry=None).execute() failure outcomes and breaker rejections carry stop_reason=None by design; only the other fields are checked there",
            "KF1 (abort poll precedes the failure record) is recognised only by its exact mechanism; any other unfaithful field is a violation",
        ],
        exhaustive=False,
    )


def replay(data):
    if "hang" in data["payload"]:
        from . import hang

        return hang.replay_hung_attempt_runs("C11")
    if "tspec" in data["payload"]:
        return tconc.replay(data["payload"])
    p = data["payload"]
    f = p["scenario"].get("fault")
    prop = bool(f and f.get("kind") == "cb")
    return common.replay_trace(data, [lambda v, st: O.o_outcome(v, st, propagating=prop)])
