"""C12 - all entry points agree: trace differential across the 20 entry points."""

from __future__ import annotations

from .. import gen, oracles as O, rig
from ..view import View
from . import common

JOBS = {"quick": 4, "thorough": 16}
KEEP = ("op", "strategy", "srec", "handler", "before_sleep", "sleep", "dsleep", "poll", "budget", "metric", "log", "br.allow", "br.success", "br.failure", "br.cancel")
HOOK_EXCS = ["RuntimeError", "HookBoom", "KeyError", "AbortRetryError", "CircuitOpenError"]


def projections(sc, entry):
    recs, h, w = rig.run(sc, entry)
    strip_op = sc["cfg"].get("operation") is None
    out = []
    for rec in recs:
        v = View(rec, sc)
        p = O.project(v, keep=KEEP, strip_place=True, strip_operation=strip_op, roles=True)
        f = O.canon_call_vs_execute(O.canon_final(v), v)
        out.append((p, f, v))
    return out


def first_diff(a, b):
    n = min(len(a), len(b))
    for i in range(n):
        if a[i] != b[i]:
            return i
    return n if len(a) != len(b) else None


def mechanism(sc, va, vb, pa, pb, d):
    """Name the divergence by its witness."""
    x = pa[d] if d is not None and d < len(pa) else None
    y = pb[d] if d is not None and d < len(pb) else None
    kinds = {e[0] for e in (x, y) if e is not None}
    # KF2: the call's final failure is a nested CircuitOpenError and the two deliveries account it differently
    for v in (va, vb):
        how, s = O.run_ending(v)
        if s is not None and s.out[0] == "sp" and s.out[1] == "nested_open" and how == "stopped":
            if kinds and kinds <= {"br.cancel", "br.failure", "metric", "log"}:
                names = {e[0] if not e[0] in ("metric", "log") else e[1] for e in (x, y) if e is not None}
                if names <= {"br.cancel", "br.failure", "circuit_opened"}:
                    return "final-exception-is-nested-CircuitOpenError"
    # KF4: a caller callback raised while a RESULT-caused failure was being handled; execute() runs that code inside
    # the operation's try block and treats the error as an exception failure of the attempt, call() propagates it
    f = sc.get("fault")
    if f and f.get("kind") == "cb" and va.is_execute != vb.is_execute:
        ve = va if va.is_execute else vb
        seg = None
        for s_ in ve.segs:
            if any(e[0] == "fault" for e in s_.events):
                seg = s_
                break
        if seg is not None and seg.out[0] == "res":
            return "callback-error-while-handling-result-failure-treated-as-attempt-failure-by-execute"
    # KF6: an attempt hook (on_attempt_start / on_attempt_end) raised; execute() runs the attempt's callbacks inside the operation's
    # try block and processes the error as a failure of that attempt (classifier called on it, possibly a retry - even after a success),
    # call() propagates it
    if f and f.get("kind") == "cb" and f.get("cb") in ("astart", "aend") and va.is_execute != vb.is_execute:
        ve, vc = (va, vb) if va.is_execute else (vb, va)
        contained = False
        tr = ve.trace
        for i_, e_ in enumerate(tr):
            if e_[0] == "fault" and e_[1] in ("astart", "aend"):
                # the run went on after the hook's error instead of ending with it
                contained = any(z[0] in ("classify", "op", "metric", "poll", "strategy") for z in tr[i_ + 1:])
                break
        propagated = vc.final[0] == "raise" and vc.final[1] is vc.rec.objs.get("fault")
        if contained and propagated:
            return "attempt-hook-error-treated-as-attempt-failure-by-execute"
        # the same wart on the abort path, the other way round: execute() calls on_attempt_end for the aborted attempt (outside its
        # try block) and the hook's error escapes from execute(); call() does not call the hook there and raises AbortRetryError
        ve_fault = ve.final[0] == "raise" and ve.final[1] is ve.rec.objs.get("fault")
        vc_abort = vc.final[0] == "raise" and type(vc.final[1]).__name__ == "AbortRetryError"
        if ve_fault and vc_abort and any(e_[0] == "metric" and e_[1] == "aborted" for e_ in ve.trace):
            return "attempt-hook-error-treated-as-attempt-failure-by-execute"
        # ... and in the books: both deliver the hook's error, but what the breaker is told differs - call() settles with a cancel (its
        # finally net) where execute() classifies the hook's error and records a failure; without a retry component call() runs
        # on_attempt_end BEFORE recording (so the hook's error becomes the call's failure) where execute() has already recorded a success
        if ve_fault and propagated and kinds and kinds <= {"br.cancel", "br.failure", "br.success", "metric", "log"}:
            names = {e[0] if e[0] not in ("metric", "log") else e[1] for e in (x, y) if e is not None}
            if names <= {"br.cancel", "br.failure", "br.success", "circuit_opened", "circuit_closed"}:
                return "attempt-hook-error-treated-as-attempt-failure-by-execute"
    if x is None and y is None:
        return "final-differs"
    if x is None or y is None:
        return "trace-length-differs:" + (x or y)[0]
    if x[0] != y[0]:
        return f"event-kind-differs:{x[0]}-vs-{y[0]}"
    return "event-differs:" + x[0]


def compare(ctx, sc, ents, stats):
    ref_e = ents[0]
    ref = projections(sc, ref_e)
    ctx.inc("scenario_entry_runs")
    ctx.inc("calls", len(ref))
    for e in ents[1:]:
        got = projections(sc, e)
        ctx.inc("scenario_entry_runs")
        ctx.inc("calls", len(got))
        ctx.inc("pairs_compared")
        fam = ("A" if ref_e.startswith("a") else "S") + ("A" if e.startswith("a") else "S")
        ctx.cnt["pair_family:" + fam] += 1
        me = ("x" if ref_e.endswith("execute") else "c") + ("x" if e.endswith("execute") else "c")
        ctx.cnt["pair_delivery:" + me] += 1
        for k, ((pa, fa, va), (pb, fb, vb)) in enumerate(zip(ref, got)):
            d = first_diff(pa, pb)
            if d is None and fa == fb and me == "xx" and fa[0] in ("aborted", "stopped", "value", "rejected") and va.final[0] != vb.final[0]:
                # two execute() entry points agree on the result but not on HOW it is delivered: execute() reports through a RetryOutcome
                ctx.viol("final-differs", f"[{ref_e} vs {e} call#{k}] same result {fa}, delivered as {va.final[0]} by one execute() and as {vb.final[0]} by the other", common.payload(sc, e, k))
                break
            if d is None and fa == fb:
                continue
            if d is None:
                key = mechanism(sc, va, vb, pa, pb, None)
                if key.startswith(("trace-length-differs", "event-")):
                    key = "final-differs"
                msg = f"finals {fa} vs {fb}"
            else:
                key = mechanism(sc, va, vb, pa, pb, d)
                msg = f"event {d}: {pa[d:d + 1]} vs {pb[d:d + 1]}; finals {fa} vs {fb}"
            ctx.viol(key, f"[{ref_e} vs {e} call#{k}] {msg}", common.payload(sc, ref_e, k, other=e))
            break  # later calls diverge as a consequence
    return ref


def features(sc):
    f = []
    cfg = sc["cfg"]
    if cfg.get("budget"):
        f.append("budget")
    if cfg.get("breaker"):
        f.append("breaker")
    if cfg.get("no_retry"):
        f.append("no-retry")
    if sc["place"]["handler"] != "none":
        f.append("handler")
    if sc["place"]["before_sleep"] != "none":
        f.append("before_sleep")
    if sc["place"]["sleeper"] == "none":
        f.append("default-sleeper")
    if any(c.get("abort_at") is not None for c in sc["calls"]):
        f.append("abort")
    if sc.get("fault"):
        f.append("hook-fault" if sc["fault"]["kind"] == "hook" else "callback-fault")
    if any(o[0] == "sp" for c in sc["calls"] for o in c["outcomes"]):
        f.append("special-exception")
    if cfg.get("legacy"):
        f.append("legacy-strategy")
    if cfg.get("strategy_objects"):
        f.append("strategy-object-feedback")
    if sc.get("via_config"):
        f.append("from_config")
    if len(sc["calls"]) > 1:
        f.append("multi-call")
    return f


def work(ctx, tier):
    stats = {}
    rng = common.rng_for(ctx, "main")
    n = (1100 if tier == "quick" else 30000) // ctx.nshards
    for k in range(n):
        sc = gen.rand_scenario(rng, p_special=0.12, specials=("abort", "cancel", "kbd", "sysexit", "nested_exh", "nested_open"), p_budget=0.3, p_breaker=0.3, p_handler=0.35, p_abort=0.25,
                               ncalls=(1, 3), placements=(k % 3 == 0), p_no_sleeper=0.2, p_strategy_objects=0.4, p_via_config=0.3, p_via_attrs=0.25, p_attempt_timeout=0.12, p_empty_table=0.06)
        if k % 7 == 0 and sc["cfg"].get("breaker"):
            sc["cfg"]["no_retry"] = True
        if k % 5 == 0:
            sc["fault"] = {"kind": "hook", "hook": rng.choice(["metric", "log", "before_sleep"]), "at": rng.choice([0, 1, 2, "always"]), "exc": rng.choice(HOOK_EXCS)}
            if k % 15 == 0 and sc["fault"]["hook"] != "before_sleep":
                # an interrupt (Ctrl-C) arriving inside an observability hook at its i-th invocation - the first one may be the breaker's
                # admission event: every entry point must leave the same trail (same breaker interactions, same delivery of the interrupt)
                sc["fault"]["exc"] = "kbd"
                sc["fault"]["at"] = rng.choice([0, 0, 1, 2])
                ctx.inc("scenarios_with_an_interrupt_inside_a_hook")
                if sc["cfg"].get("breaker"):
                    br = sc["cfg"]["breaker"]
                    br["trip_on"] = ["TRANSIENT"]
                    br["class_thresholds"] = {}
                    br["pre"] = [["fail", "TRANSIENT"]] * br["threshold"] + [["adv", br["recovery"] + gen.G]]  # the first event of the call is its admission as the probe
        elif k % 5 == 1:
            # "the same behaviour of ... callbacks" includes a caller callback that raises at its i-th invocation; only callbacks
            # whose invocation counts the property itself lists (strategy calls, sleeps, handler consultations) are used
            sc["fault"] = {"kind": "cb", "cb": rng.choice(["strategy", "strategy", "sleeper", "handler"]), "at": rng.choice([0, 0, 1, 2]), "exc": rng.choice(gen.CB_EXCS)}
        if sc["cfg"].get("breaker"):
            ents = list(rig.BREAKER_ENTRIES)
            if sc["cfg"].get("no_retry"):
                ents = [e for e in ents if e.lstrip("a").startswith("policy.")]  # the sugar always has a retry component
        else:
            ents = list(rig.ENTRIES)
        if k % 5 == 2:
            # a raising attempt hook or abort predicate at its i-th invocation.  How call() and execute() deliver such an error differs by
            # design (execute() contains it as a failed attempt), so only entry points with the same delivery are compared: sync against
            # async, Retry against Policy against RetryPolicy against the sugar
            sc["place"]["hooks"] = rng.choice(["call", "policy", "both"])
            sc["poll"] = True
            sc["fault"] = {"kind": "cb", "cb": rng.choice(["astart", "aend", "aend", "abort_if"]), "at": rng.choice([0, 1, 1, 2, 3]), "exc": rng.choice(gen.CB_EXCS)}
            ex = rng.random() < 0.5
            ents = [e for e in ents if e.endswith("execute") == ex]
            ctx.inc("scenarios_with_raising_attempt_hook_same_delivery")
            if k % 10 == 2:
                # the end hook fails on the attempt that ends the run - an ordinary failure is retried, then the operation aborts (or
                # succeeds, or fails for good): whether that last attempt is reported to the hook at all must not depend on the twin
                for c in sc["calls"]:
                    n_ = len(c["outcomes"])
                    c["outcomes"] = [["exc", rng.choice(gen.RETRYABLE[:4]), None]] + [rng.choice([["sp", "abort"], ["sp", "abort"], ["ok"], ["exc", "PERMANENT", None]])] + c["outcomes"][2:]
                    c["outcomes"] = c["outcomes"][:max(n_, 2)]
                    c["abort_at"] = None
                    if c.get("handler"):
                        c["handler"] = ["sleep"] * len(c["handler"])
                sc["cfg"]["max_attempts"] = max(sc["cfg"]["max_attempts"], 2)
                sc["cfg"]["per_class"] = {}
                sc["cfg"]["budget"] = None
                sc["fault"] = {"kind": "cb", "cb": "aend", "at": 1, "exc": rng.choice(gen.CB_EXCS)}
                ctx.inc("scenarios_with_the_end_hook_failing_on_the_last_attempt")
        elif k % 5 == 3 and k % 2:
            # the same, across deliveries: call() against execute() (the clean tree differs here by KF6, and only by KF6)
            sc["place"]["hooks"] = rng.choice(["call", "policy", "both"])
            sc["fault"] = {"kind": "cb", "cb": rng.choice(["astart", "aend", "aend"]), "at": rng.choice([0, 1, 1, 2]), "exc": rng.choice(gen.CB_EXCS)}
            ctx.inc("scenarios_with_raising_attempt_hook_across_deliveries")
        rng.shuffle(ents)
        ref = compare(ctx, sc, ents, stats)
        for ftr in features(sc):
            ctx.cnt["feature:" + ftr] += 1
        ctx.add_hash("nontrivial", sc)
        ctx.inc("scenarios")
        if k < 1 and ctx.shard == 0:
            ctx.sample({"scenario": sc, "entries_compared": ents, "reference_projection": [list(map(str, ref[0][0][:20])), str(ref[0][1])]})
    # the async entry points among themselves when the task is cancelled at one of its suspension points (inside the operation, inside an
    # awaitable sleeper during the backoff, inside an awaitable before_sleep hook): the same trail up to that point, nothing after it
    for k in range((150 if tier == "quick" else 4000) // ctx.nshards):
        sc = gen.rand_scenario(rng, max_attempts=(2, 4), p_special=0.0, p_budget=0.2, p_handler=0.2, p_abort=0.0, ncalls=(1, 1), p_before_sleep=0.5)
        sc["sleeper_kind"] = "async"
        sc["bs_kind"] = rng.choice(["sync", "async"])
        if sc["place"].get("sleeper") == "none":
            sc["place"]["sleeper"] = "call"
        c0 = sc["calls"][0]
        for i in range(len(c0["outcomes"]) - 1):
            if c0["outcomes"][i][0] == "ok":
                c0["outcomes"][i] = [rng.choice(["exc", "res"]), rng.choice(gen.RETRYABLE), None]
        sc["fault"] = {"kind": "throw", "exc": "cancel", "at": rng.choice([0, 1, 1, 2, 2, 3, 4])}
        ents = [e for e in rig.ASYNC_ENTRIES]
        rng.shuffle(ents)
        compare(ctx, sc, ents[:6], stats)
        ctx.inc("scenarios_cancelled_at_a_suspension_point")
    # systematic: a policy without a retry component but with a breaker, whose operation ends with each kind of final outcome - in
    # particular a nested policy giving up (RetryExhaustedError carrying each class, or none): call() and execute(), sync and async,
    # must tell the breaker the same thing
    nr = 0
    for brk in ({"threshold": 2, "window": 8.0, "recovery": 4.0, "trip_on": ["TRANSIENT", "SERVER_ERROR"], "class_thresholds": {}, "pre": []},
                {"threshold": 3, "window": 8.0, "recovery": 4.0, "trip_on": ["TRANSIENT", "RATE_LIMIT", "UNKNOWN"], "class_thresholds": {"RATE_LIMIT": 1}, "pre": []}):
        for last in [["ok"], ["exc", "TRANSIENT"], ["exc", "PERMANENT"], ["sp", "nested_open", "TRANSIENT"], ["sp", "abort"]] + [["sp", "nested_exh", kl] for kl in ("TRANSIENT", "SERVER_ERROR", "RATE_LIMIT", "PERMANENT", "AUTH", "UNKNOWN", None)]:
            nr += 1
            if nr % ctx.nshards != ctx.shard:
                continue
            sc = gen.rand_scenario(rng, p_special=0.0, p_budget=0.0, p_breaker=0.0, p_handler=0.0, p_abort=0.0, ncalls=(1, 1))
            sc["cfg"]["breaker"] = dict(brk)
            sc["cfg"]["no_retry"] = True
            sc["fault"] = None
            sc["calls"] = [gen.mk_call([list(last)]), gen.mk_call([list(last)]), gen.mk_call([["ok"]])]
            ents = [e for e in rig.BREAKER_ENTRIES if e.lstrip("a").startswith("policy.")]
            rng.shuffle(ents)
            compare(ctx, sc, ents, stats)
            ctx.add_hash("nontrivial", sc)
            ctx.inc("retryless_breaker_scenarios")
            if last[0] != "ok":
                # the same with an attempt-end hook that fails: whatever the single attempt ended with, the hook is told about it by
                # call() and by execute() alike, so its failure surfaces (or does not) in both
                import copy

                sc2 = copy.deepcopy(sc)
                sc2["place"]["hooks"] = "call"
                sc2["fault"] = {"kind": "cb", "cb": "aend", "at": 0, "exc": "TypeError"}
                compare(ctx, sc2, ents, stats)
                ctx.inc("retryless_breaker_scenarios_with_a_failing_end_hook")
    for i, sc in enumerate(gen.sweep_scenarios(max_len=3, stride=16 if tier == "quick" else 2)):
        if i % ctx.nshards != ctx.shard:
            continue
        ents = list(rig.ENTRIES)
        compare(ctx, sc, ents, stats)
        ctx.add_hash("nontrivial", sc)
        ctx.inc("sweep_scenarios")
    if ctx.shard == 0:
        from . import hang

        hang.twin_runs_with_a_hung_attempt(ctx, rounds=1 if tier == "quick" else 4)
    common.flush_stats(ctx, stats)


def conclude(ctx):
    floors = {"pairs_compared": (ctx.cnt["pairs_compared"], 5000)}
    floors["scenarios_with_an_interrupt_inside_a_hook"] = (ctx.cnt["scenarios_with_an_interrupt_inside_a_hook"], 30)
    floors["scenarios_with_raising_attempt_hook_across_deliveries"] = (ctx.cnt["scenarios_with_raising_attempt_hook_across_deliveries"], 40)
    floors["hung_attempt_twin_comparisons"] = (ctx.cnt["hung_attempt_twin_comparisons"], 6)
    floors["scenarios_with_raising_attempt_hook_same_delivery"] = (ctx.cnt["scenarios_with_raising_attempt_hook_same_delivery"], 100)
    for f in ("SS", "SA", "AS", "AA"):
        floors["pair_family:" + f] = (ctx.cnt["pair_family:" + f], 500)
    for f in ("cc", "cx", "xc", "xx"):
        floors["pair_delivery:" + f] = (ctx.cnt["pair_delivery:" + f], 100)
    for f in ("budget", "breaker", "handler", "before_sleep", "default-sleeper", "abort", "hook-fault", "callback-fault", "special-exception", "legacy-strategy", "multi-call", "no-retry", "strategy-object-feedback", "from_config"):
        floors["feature:" + f] = (ctx.cnt["feature:" + f], 10)
    return dict(
        rule=(
            "each scenario (random, incl. special exceptions, hook-fault plans, budgets, breakers, placements, 1-3 calls; plus a strided sweep) is executed through every entry point "
            "(all 20, or the 6 breaker-carrying ones when a breaker is configured) and the projections {operation invocations, strategy calls, handler/before_sleep calls, sleeps, polls, "
            "budget and breaker interactions, metric and log events, canonical final} are compared with a randomly chosen reference entry; plus (real time, real worker threads / wait_for) sync entry points against "
            "their async twins when attempt 1 really hangs past attempt_timeout_s; distinct_nontrivial = distinct scenarios compared"
        ),
        evaluations=ctx.cnt["calls"],
        nontrivial=len(ctx.sets["nontrivial"]),
        floors=floors,
        assumptions=common.ASSUME_COMMON + [
            "classifier call counts and attempt hooks are not among the property's observables and are not projected; a raising attempt hook / abort predicate is a callback behaviour and is injected, "
            "but since call() propagates such an error and execute() contains it as a failed attempt (by design, cf. KF4) only entry points with the same delivery are compared under it",
            "call() raising the final scripted exception object is identified with the execute() outcome that carries it",
            "KF2 (final nested CircuitOpenError accounted differently by call() and execute()) is recognised only by that mechanism",
            "KF4 (a caller callback raising while a result-caused failure is handled: execute() treats it as an attempt failure, call() propagates it) is recognised only by that mechanism",
            "KF6 (an attempt hook raising: execute() contains the error as a failure of the attempt - even after a success - call() propagates it) is recognised only when the execute side shows the hook error being classified and the call side delivers that very error",
        ],
        exhaustive=False,
    )


def replay(data):
    p = data["payload"]
    if "hang" in p:
        import collections

        from . import hang

        class C:
            cnt = collections.Counter()
            bad = []

            def inc(self, *a):
                pass

            def viol(self, k, m, pl):
                self.bad.append(m)

        c = C()
        hang.twin_runs_with_a_hung_attempt(c)
        for m in c.bad:
            print("  !!", m)
        print("replay:", "violation reproduced" if c.bad else "no violation on this tree")
        return 1 if c.bad else 0
    sc, a, b = p["scenario"], p["entry"], p["other"]
    ra, rb = projections(sc, a), projections(sc, b)
    bad = False
    for k, ((pa, fa, va), (pb, fb, vb)) in enumerate(zip(ra, rb)):
        print(f"--- call#{k}: {a} | {b}")
        for i in range(max(len(pa), len(pb))):
            x = pa[i] if i < len(pa) else None
            y = pb[i] if i < len(pb) else None
            print(" ", "==" if x == y else "!=", x, "|", y)
        print("  final", fa, "|", fb)
        if pa != pb or fa != fb:
            bad = True
            break
    print("replay:", "violation reproduced" if bad else "no violation on this tree")
    return 1 if bad else 0
