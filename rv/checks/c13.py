"""C13 - abort and cancellation stop work immediately and are never retried (fault enumeration)."""

from __future__ import annotations

import copy

from .. import gen, oracles as O, rig
from ..view import View
from . import common, hang

JOBS = {"quick": 4, "thorough": 16}
CANCELS = ["cancel", "kbd", "sysexit", "cancel_exc", "kbd_exc", "sysexit_exc"]
# what a cancelled task / an interrupt delivers at an await point is always the plain type; application classes that also derive
# from Exception are only ever *raised* (by the operation, by a sleeper)
THROWN = ["cancel", "kbd", "sysexit"]


def base_scenarios(rng, n):
    out = []
    for k in range(n):
        sc = gen.rand_scenario(rng, max_attempts=(1, 4), p_special=0.0, p_budget=0.2, p_breaker=0.3, p_handler=0.4, p_abort=0.0, ncalls=(1, 1), placements=(k % 3 == 0), p_no_sleeper=0.25)
        sc["poll"] = k % 4 != 3
        sc["poll_kind"] = ["bool", "int", "str", "obj"][k % 4]  # abort_if may answer with any truthy / falsy value
        if sc["place"]["before_sleep"] == "none" and k % 2:
            sc["place"]["before_sleep"] = "call"
        sc["bs_kind"] = ["sync", "async"][k % 2]
        sc["sleeper_kind"] = ["async", "async", "sync"][k % 3]
        if k % 5 == 0:
            sc["op_two_susp"] = True
        if k % 6 == 1:
            # attempt_timeout_s configured (never fires): the operation runs under asyncio.wait_for / a worker thread
            sc["cfg"]["attempt_timeout"] = 30.0
        c = sc["calls"][0]
        if rng.random() < 0.7:
            for i in range(len(c["outcomes"]) - 1):
                if c["outcomes"][i][0] == "ok":
                    c["outcomes"][i] = [rng.choice(["exc", "res"]), rng.choice(gen.RETRYABLE), None]
        if c.get("handler"):
            c["handler"] = ["sleep" if rng.random() < 0.8 else d for d in c["handler"]]
        out.append(sc)
    return out


def _run(ctx, sc, entry, stats, label):
    recs, h, w = rig.run(sc, entry)
    ctx.inc("runs")
    common.check_recs(ctx, sc, entry, recs, [O.o_abort], stats)
    ctx.cnt["inject:" + label] += 1
    rec = recs[0]
    if label != "clean":
        ctx.add("cells", f"{entry}|{label}")
    return rec


def enumerate_faults(ctx, base, entry, rng, tier, stats):
    clean = _run(ctx, base, entry, stats, "clean")
    counts = clean.counts
    nops = sum(1 for e in clean.trace if e[0] == "op")
    npolls = counts.get("poll", 0)
    nsleeps = counts.get("cb:sleeper", 0)
    ctx.inc("clean_runs")
    ctx.inc("polls_observed", npolls)
    points = 0
    # first-True poll index
    if base.get("poll"):
        for at in range(npolls + 1):
            sc = copy.deepcopy(base)
            sc["calls"][0]["abort_at"] = at
            _run(ctx, sc, entry, stats, "abort-poll")
            points += 1
    # operation raises AbortRetryError / cancellation types at every attempt index
    for i in range(max(1, nops)):
        for sp in ["abort"] + CANCELS:
            sc = copy.deepcopy(base)
            outs = sc["calls"][0]["outcomes"]
            while len(outs) <= i:
                outs.append(["ok"])
            outs[i] = ["sp", sp]
            _run(ctx, sc, entry, stats, "op-raises-" + ("abort" if sp == "abort" else "cancellation"))
            points += 1
    # sleeper raises cancellation types at every sleep index
    for i in range(nsleeps):
        for k in CANCELS:
            sc = dict(base, fault={"kind": "cb", "cb": "sleeper", "at": i, "exc": k})
            _run(ctx, sc, entry, stats, "sleeper-raises-cancellation")
            points += 1
    # throws at every suspension point of the async run
    if entry.startswith("a") and not base["cfg"].get("attempt_timeout"):
        ctx.mx("max_suspension_points", clean.suspensions)
        tags = []
        for sp in range(clean.suspensions):
            for k in THROWN + ["close"]:
                sc = dict(base, fault={"kind": "throw", "at": sp, "exc": k, "call": 0})
                _run(ctx, sc, entry, stats, "throw-at-suspension")
                points += 1
    ctx.inc("injection_points", points)
    if base["cfg"].get("attempt_timeout"):
        ctx.inc("attempt_timeout_bases")
    return clean


def work(ctx, tier):
    stats = {}
    rng = common.rng_for(ctx, "main")
    nbase = (320 if tier == "quick" else 4000) // ctx.nshards
    for k, base in enumerate(base_scenarios(rng, nbase)):
        ents = rig.ENTRIES if tier != "quick" else common.pick_entries(rng, rig.SYNC_ENTRIES, 3) + common.pick_entries(rng, rig.ASYNC_ENTRIES, 4)
        for entry in ents:
            clean = enumerate_faults(ctx, base, entry, rng, tier, stats)
            if k == 0 and ctx.shard == 0 and entry.startswith("a") and len(ctx.samples) < 2:
                ctx.sample({"base_scenario": {"cfg": base["cfg"], "call0": base["calls"][0], "place": base["place"]}, "clean_run": common.describe(clean, 25), "suspension_points": clean.suspensions})
        ctx.inc("base_scenarios")
    # poll placement on ordinary random scenarios (abort_if configured, never true or true at random index)
    n = (4000 if tier == "quick" else 100000) // ctx.nshards
    for k in range(n):
        sc = gen.rand_scenario(rng, p_special=0.05, specials=("abort", "cancel", "kbd", "sysexit"), p_budget=0.3, p_handler=0.4, p_abort=0.5, p_breaker=0.2, ncalls=(1, 2), p_no_sleeper=0.3, poll_kinds=True)
        sc["poll"] = True
        for e in common.pick_entries(rng, rig.ENTRIES, 2):
            _run(ctx, sc, e, stats, "random")
        ctx.inc("random_scenarios")
    # the barest use: nobody watching (no hooks at all), a short policy - one attempt among them - and an abort predicate
    n2 = (600 if tier == "quick" else 15000) // ctx.nshards
    for k in range(n2):
        sc = gen.rand_scenario(rng, max_attempts=(1, 3), p_special=0.0, p_budget=0.1, p_handler=0.1, p_abort=0.0, ncalls=(1, 1), p_no_sleeper=0.2, poll_kinds=True)
        sc["poll"] = True
        sc["no_hooks"] = True
        sc["timeline"] = False
        sc["place"]["hooks"] = "none"
        sc["place"]["before_sleep"] = rng.choice(["none", "none", "call"])
        if k % 2:
            sc["cfg"]["result_classifier"] = False
        sc["calls"][0]["abort_at"] = rng.choice([0, 0, 1, 2, None])
        for e in common.pick_entries(rng, rig.ENTRIES, 2):
            _run(ctx, sc, e, stats, "unobserved")
        ctx.inc("unobserved_scenarios")
    if ctx.shard == 0:
        hang.cancel_while_unwinding(ctx, rounds=1 if tier == "quick" else 5)
        hang.abort_while_other_calls_hang(ctx)
        hang.interrupt_while_waiting_for_a_timed_attempt(ctx, rounds=3 if tier == "quick" else 9)
    common.flush_stats(ctx, stats)


def conclude(ctx):
    floors = {
        "gaps_checked": (ctx.cnt["gaps_checked"], 5000),
        "unobserved_scenarios": (ctx.cnt["unobserved_scenarios"], 100),
        "stops:abort": (ctx.cnt["stops:abort"], 500),
        "stops:abort-op": (ctx.cnt["stops:abort-op"], 200),
        "stops:special": (ctx.cnt["stops:special"], 300),
        "stops:fault": (ctx.cnt["stops:fault"], 100),
        "stops:thrown": (ctx.cnt["stops:thrown"], 500),
        "distinct (entry, injection kind) cells": (len(ctx.sets["cells"]), 50),
        "attempt_timeout_bases": (ctx.cnt["attempt_timeout_bases"], 20),
        "cancellations_while_a_timed_out_attempt_unwinds": (ctx.cnt["cancellations_while_a_timed_out_attempt_unwinds"], 6),
        "aborts_while_other_calls_hang": (ctx.cnt["aborts_while_other_calls_hang"], 1),
        "hung_operations_of_other_calls": (ctx.cnt["hung_operations_of_other_calls"], 30),
        "interrupts_while_waiting_for_a_timed_attempt": (ctx.cnt["interrupts_while_waiting_for_a_timed_attempt"], 3),
    }
    return dict(
        rule=(
            "fault enumeration from clean runs: first-True abort poll index 0..N, AbortRetryError / CancelledError / KeyboardInterrupt / SystemExit raised by the operation at every attempt index "
            "and by the sleeper at every sleep index, and thrown (or close()) at every suspension point of async runs (operation, awaitable before_sleep hooks, awaitable/default sleepers), "
            "with and without handlers, over all entry points; plus random scenarios for poll placement; plus (real loop, real attempt_timeout_s) the cancellation of a run arriving while its timed-out "
            "attempt is still unwinding; distinct_nontrivial = distinct (entry, injection kind) cells"
        ),
        evaluations=ctx.cnt["runs"],
        nontrivial=len(ctx.sets["cells"]),
        floors=floors,
        assumptions=common.ASSUME_COMMON + ["one abort poll between consecutive actions (attempt/sleep) suffices; the engine has up to three", "injection at callback/suspension granularity, not between arbitrary bytecodes"],
        extra={"inject_counts": {k: v for k, v in ctx.cnt.items() if k.startswith("inject:")}},
        exhaustive=False,
    )


def replay(data):
    if "hang" in data["payload"]:
        import collections

        class C:
            cnt = collections.Counter()
            bad = []

            def inc(self, *a):
                pass

            def add(self, *a):
                pass

            def inconclusive_because(self, m):
                print("  ??", m)

            def viol(self, k, m, pl):
                self.bad.append(m)

        c = C()
        hang.cancel_while_unwinding(c)
        hang.abort_while_other_calls_hang(c)
        for m in c.bad:
            print("  !!", m)
        print("replay:", "violation reproduced" if c.bad else "no violation on this tree")
        return 1 if c.bad else 0
    return common.replay_trace(data, [O.o_abort])
