"""C14 - event stream: retry* then exactly one terminal event; three-sink parity; breaker events."""

from __future__ import annotations

from .. import env, gen, oracles as O, rig, tconc
from ..view import TERMINALS, View
from . import common

JOBS = {"quick": 4, "thorough": 16}


KF7 = "abort-raised-by-a-backoff-callback-ends-the-run-without-an-aborted-event"


def _aborted_from_a_backoff_callback(ctx, sc, entry, recs, stats):
    """Runs in which the sleeper / sleep handler / strategy raised AbortRetryError.  The unchanged tree ends such a run with the abort but
    emits no `aborted` event (except on execute()'s result-caused path): known finding KF7, recognised ONLY in this shape - the fault
    fired in this call, the caller received that very AbortRetryError, and the one thing wrong with the event stream is the missing
    terminal event.  Anything else is reported under its own key."""
    f = sc["fault"]
    for rec in recs:
        v = View(rec, sc)
        found = list(O.o_events(v, stats))
        kind, val = rec.final
        shape = (
            rec.fault_fired
            and kind == "raise"
            and val is rec.objs.get("fault")
            and type(val).__name__ == "AbortRetryError"
            and {k for k, _ in found} == {"missing-terminal"}
        )
        if shape:
            ctx.cnt["runs_aborted_from_a_backoff_callback_without_an_aborted_event"] += 1
            ctx.viol(KF7, f"[{entry} call#{rec.idx}] {f['cb']} raised AbortRetryError; the run ended with it; metric events {[m[1] for m in v.all_metric()]}", common.payload(sc, entry, rec.idx))
            continue
        if rec.fault_fired and not found:
            ctx.cnt["runs_aborted_from_a_backoff_callback_with_an_aborted_event"] += 1
        for key, msg in found:
            ctx.viol(key, f"[{entry} call#{rec.idx}] {msg}", common.payload(sc, entry, rec.idx))


def _one(ctx, sc, entry, stats, sample=False):
    recs, h, w = rig.run(sc, entry)
    ctx.inc("runs")
    ctx.inc("calls", len(recs))
    f = sc.get("fault")
    if f and f.get("kind") == "cb" and f.get("exc") == "AbortRetryError" and f.get("cb") in ("sleeper", "handler", "strategy"):
        _aborted_from_a_backoff_callback(ctx, sc, entry, recs, stats)
    else:
        common.check_recs(ctx, sc, entry, recs, [O.o_events], stats)
    for rec in recs:
        v = View(rec, sc)
        mets = v.all_metric()
        term = [m[1] for m in mets if m[1] in TERMINALS]
        nret = sum(1 for m in mets if m[1] == "retry")
        if term:
            ctx.cell("terminal", term[-1], "async" if entry.startswith("a") else "sync")
            ctx.add_hash("nontrivial", [sc["cfg"], rec.env["outcomes"], rec.env.get("abort_at"), rec.env.get("handler"), entry])
        ctx.inc("retry_events", nret)
        ctx.inc("metric_events", len(mets))
    if sample:
        ctx.sample({"scenario": {"cfg": sc["cfg"], "call0": sc["calls"][0]}, **common.describe(recs[0], 40)})


def runs_started_inside_a_hook(ctx, rng, n):
    """Re-entrancy: a metric or log hook of one run ships its event through redress itself (a retried upload), i.e. a second run - on
    another policy object or on the SAME one - starts and ends while the first run's hook is executing.  The inner run has its own
    hooks and timeline and is a run like any other: retry* then exactly one terminal event, identical in all three sinks."""
    from redress import ErrorClass, Retry

    for k in range(n):
        world = env.World()
        with env.active(world):
            outer_fail = rng.randint(1, 3)
            inner_fail, inner_max = rng.randint(0, 3), rng.randint(1, 4)
            via_log = bool(k % 2)
            same_object = k % 3 == 0
            use_call = k % 4 >= 2
            at_event = rng.randint(0, outer_fail)
            mk = lambda m: Retry(classifier=lambda e: ErrorClass.TRANSIENT, strategy=lambda c: 0.0, max_attempts=m, deadline_s=1000.0, sleeper=lambda s_: None, max_unknown_attempts=None)  # noqa: E731
            outer = mk(outer_fail + 1 if not same_object else max(outer_fail + 1, inner_max))
            inner = outer if same_object else mk(inner_max)
            eff_max = inner.max_attempts
            im, il, itl, seen = [], [], [], [0]
            done = []

            def run_inner():
                cnt = [0]

                def iop():
                    cnt[0] += 1
                    if cnt[0] <= inner_fail:
                        raise ConnectionError("upload failed")
                    return "shipped"

                kw = dict(on_metric=lambda ev, a, s_, t: im.append((ev, a)), on_log=lambda ev, f: il.append((ev, f.get("attempt"))))
                if use_call:
                    try:
                        inner.call(iop, **kw)
                    except ConnectionError:
                        pass
                else:
                    out = inner.execute(iop, capture_timeline=True, **kw)
                    itl.extend((e.event, e.attempt) for e in out.timeline.events)
                done.append(True)

            def hook(*a):
                i = seen[0]
                seen[0] += 1
                if i == at_event and not done:
                    run_inner()

            ocnt = [0]

            def oop():
                ocnt[0] += 1
                if ocnt[0] <= outer_fail:
                    raise ConnectionError("flaky")
                return "ok"

            okw = {"on_log": (lambda ev, f: hook())} if via_log else {"on_metric": (lambda ev, a, s_, t: hook())}
            try:
                outer.execute(oop, **okw)
            except Exception as x:  # noqa: BLE001
                ctx.viol("nested-run-broke-the-outer-run", f"outer execute() raised {x!r} with a hook that runs redress itself", {"nested": k})
                continue
        if not done:
            ctx.inc("nested_runs_not_reached")
            continue
        ctx.inc("runs_started_inside_a_hook")
        if inner_fail < eff_max:
            want = [("retry", i) for i in range(1, inner_fail + 1)] + [("success", inner_fail + 1)]
        else:
            want = [("retry", i) for i in range(1, eff_max)] + [("max_attempts_exceeded", eff_max)]
        desc = f"run started inside the outer run's {'on_log' if via_log else 'on_metric'} hook ({'same' if same_object else 'another'} Retry object, {'call' if use_call else 'execute'}; fails {inner_fail}x, max_attempts {eff_max})"
        for name, got in (("metric", im), ("log", il)) + ((("timeline", itl),) if not use_call else ()):
            if got != want:
                ctx.viol("nested-run-stream-wrong:" + name, f"{desc}: {name} sink received {got}, expected {want}", {"nested": k})
                break


def work(ctx, tier):
    stats = {}
    rng = common.rng_for(ctx, "main")
    # a backoff-phase callback stops the run with AbortRetryError (an interruptible sleeper, a handler that gives up): an abort like any other
    for k in range((400 if tier == "quick" else 8000) // ctx.nshards):
        sc = gen.rand_scenario(rng, max_attempts=(2, 5), p_special=0.0, p_budget=0.2, p_handler=0.5, p_abort=0.0, p_breaker=0.0, ncalls=(1, 2))
        sc["place"]["hooks"] = rng.choice(["call", "policy", "both"])
        sc["fault"] = {"kind": "cb", "cb": rng.choice(["sleeper", "handler", "strategy", "sleeper"]), "at": rng.choice([0, 0, 1]), "exc": "AbortRetryError"}
        if sc["place"].get("sleeper") == "none":
            sc["place"]["sleeper"] = "call"
        for e in common.pick_entries(rng, rig.ENTRIES, 3):
            _one(ctx, sc, e, stats)
        ctx.inc("scenarios_aborted_from_a_backoff_callback")
    # ... and so is an abort raised by the attempt-start hook ("do not start another attempt"): the run ends with an abort, the stream
    # with `aborted`
    for k in range((200 if tier == "quick" else 4000) // ctx.nshards):
        sc = gen.rand_scenario(rng, max_attempts=(2, 5), p_special=0.0, p_budget=0.2, p_handler=0.3, p_abort=0.0, p_breaker=0.0, ncalls=(1, 2))
        sc["place"]["hooks"] = rng.choice(["call", "policy", "both"])
        sc["fault"] = {"kind": "cb", "cb": "astart", "at": rng.choice([0, 1, 1, 2]), "exc": "AbortRetryError"}
        for e in common.pick_entries(rng, rig.ENTRIES, 3):
            _one(ctx, sc, e, stats)
        ctx.inc("scenarios_aborted_from_the_attempt_start_hook")
    runs_started_inside_a_hook(ctx, common.rng_for(ctx, "nested"), (200 if tier == "quick" else 4000) // ctx.nshards)
    for i, sc in enumerate(gen.sweep_scenarios(max_len=3 if tier == "quick" else 4, stride=4 if tier == "quick" else 1)):
        if i % ctx.nshards != ctx.shard:
            continue
        sc["timeline"] = [True, "obj", False][i % 3]
        sc["cfg"]["operation"] = [None, "opname"][i % 2]
        _one(ctx, sc, rig.ENTRIES[(i * 3) % len(rig.ENTRIES)], stats)
        ctx.inc("sweep_scenarios")
    n = (9000 if tier == "quick" else 250000) // ctx.nshards
    for k in range(n):
        sc = gen.rand_scenario(rng, p_special=0.04, specials=("abort", "nested_open"), p_budget=0.3, p_handler=0.4, p_abort=0.3, p_breaker=0.4, ncalls=(1, 4), placements=(k % 5 == 0), p_strategy_objects=0.3, slow_hooks=(k % 3 == 1), rf_time=True, p_via_attrs=0.25, p_bogus_handler=0.15)
        if k % 6 == 0:
            # a raising metric hook must not make the three sinks disagree
            sc["fault"] = {"kind": "hook", "hook": "metric", "at": rng.choice([0, 1, 2, "always"]), "exc": rng.choice(["RuntimeError", "ValueError", "KeyError"])}
            ctx.inc("scenarios_with_raising_metric_hook")
        for e in common.pick_entries(rng, rig.ENTRIES, 3):
            _one(ctx, sc, e, stats, sample=(k < 2 and ctx.shard == 0))
        ctx.inc("random_scenarios")
    # the clock crossing the deadline inside one callback of the backoff phase (after the handler has already decided)
    for sc in gen.crossing_scenarios(rng, (1200 if tier == "quick" else 30000) // ctx.nshards):
        for e in common.pick_entries(rng, rig.ENTRIES, 2):
            _one(ctx, sc, e, stats)
        ctx.cnt["crossing_scenarios:" + sc["crossing"]] += 1
    # breaker histories at policy level: many calls on one policy with small thresholds
    m = (1500 if tier == "quick" else 40000) // ctx.nshards
    for k in range(m):
        sc = gen.rand_scenario(rng, max_attempts=(1, 3), p_special=0.03, specials=("abort",), p_breaker=1.0, ncalls=(3, 8), p_abort=0.1, p_handler=0.1)
        sc["cfg"]["breaker"]["threshold"] = rng.randint(1, 2)
        for c in sc["calls"]:
            c["gap"] = rng.choice([0.0, 1.0, sc["cfg"]["breaker"]["recovery"], sc["cfg"]["breaker"]["recovery"] + gen.G, 20.0])
        for e in common.pick_entries(rng, rig.BREAKER_ENTRIES, 2):
            _one(ctx, sc, e, stats)
        ctx.inc("breaker_history_scenarios")
    # degenerate configuration max_attempts=0: execute() still "ends normally" (a not-ok outcome) and must explain itself with one terminal event
    for e in rig.EXECUTE_ENTRIES:
        if hash(e) % ctx.nshards != ctx.shard:
            continue
        for tl in (False, True, "obj"):
            sc = {"cfg": gen.mk_cfg(max_attempts=0, operation="opname"), "place": gen.default_place(), "bs_kind": "sync", "sleeper_kind": "async", "timeline": tl, "poll": False,
                  "calls": [gen.mk_call([["ok"]])], "fault": None}
            recs, h, w = rig.run(sc, e)
            ctx.inc("runs")
            ctx.inc("calls")
            ctx.inc("zero_attempt_runs")
            rec = recs[0]
            kind, val = rec.final
            if kind != "return":
                continue  # call()-style RuntimeError for max_attempts=0 is outside every property
            mets = [x for x in rec.trace if x[0] == "metric"]
            logs = [x for x in rec.trace if x[0] == "log"]
            terms = [m for m in mets if m[1] in TERMINALS]
            if len(terms) != 1 or len(mets) != 1:
                ctx.viol("missing-terminal" if not terms else "double-terminal", f"[{e}] max_attempts=0: execute() returned {val!r} with metric events {[m[1] for m in mets]}", common.payload(sc, e, 0))
            elif len(logs) != 1 or logs[0][1] != mets[0][1]:
                ctx.viol("log-metric-count-differs", f"[{e}] max_attempts=0: metric {[m[1] for m in mets]} vs log {[l[1] for l in logs]}", common.payload(sc, e, 0))
            elif tl and (val.timeline is None or [t.event for t in val.timeline.events] != [mets[0][1]]):
                ctx.viol("timeline-count-differs", f"[{e}] max_attempts=0: timeline {val.timeline} vs metric {[m[1] for m in mets]}", common.payload(sc, e, 0))
    # each call's own stream when whole calls race in threads on a shared budget / breaker / policy object
    tconc.thread_slice(ctx, tier, common.rng_for(ctx, "threads"), ["events"], budget=True, breaker=True, long_ops=True)
    if tier != "quick":
        common.repo_suite_under_monitors(ctx, "events")
    common.flush_stats(ctx, stats)


def conclude(ctx):
    floors = {}
    for t in sorted(TERMINALS):
        for fam in ("sync", "async"):
            floors[f"terminal:{t}/{fam}"] = (ctx.cnt.get(f"terminal:{t}/{fam}", 0), 20)
    floors["timelines_checked"] = (ctx.cnt["timelines_checked"], 500)
    floors["runs_started_inside_a_hook"] = (ctx.cnt["runs_started_inside_a_hook"], 100)
    floors["runs_aborted_from_a_backoff_callback (with or without the event)"] = (ctx.cnt["runs_aborted_from_a_backoff_callback_without_an_aborted_event"] + ctx.cnt["runs_aborted_from_a_backoff_callback_with_an_aborted_event"], 100)
    floors["breaker_events_checked"] = (ctx.cnt["breaker_events_checked"], 500)
    floors["retry_events"] = (ctx.cnt["retry_events"], 3000)
    floors["scenarios_with_raising_metric_hook"] = (ctx.cnt["scenarios_with_raising_metric_hook"], 100)
    floors.update(tconc.floors(ctx))
    for w_ in ("handler", "before_sleep", "record_failure"):
        floors["crossing_scenarios:" + w_] = (ctx.cnt["crossing_scenarios:" + w_], 100)
    return dict(
        rule=(
            "sweep + random scenarios (all stop reasons, causes, abort points, handler decisions, timelines as bool/object) over 20 entry points + policy-level breaker histories "
            "(3-8 calls, small thresholds, gaps around the recovery timeout); per run the metric stream is parsed by the grammar retry* terminal, compared field-by-field with the log stream "
            "and the timeline, breaker events are matched against the spied transitions; non-trivial = run with a terminal event; distinct = distinct (config, script, abort index, handler, entry)" + tconc.RULE
        ),
        evaluations=ctx.cnt["calls"],
        nontrivial=len(ctx.sets["nontrivial"]),
        floors=floors,
        assumptions=common.ASSUME_COMMON + ["runs that end abnormally (cancellation types, nested RetryExhaustedError, raising non-hook callbacks) are outside the property and skipped"],
        exhaustive=False,
    )


def replay(data):
    if "nested" in data["payload"]:
        import collections

        class C:
            cnt = collections.Counter()
            prop, shard, nshards, seed = "C14", 0, 1, data.get("seed", 0)
            bad = []

            def inc(self, k, n=1):
                self.cnt[k] += n

            def viol(self, k, m, pl):
                self.bad.append((k, m))

        c = C()
        runs_started_inside_a_hook(c, common.rng_for(c, "nested"), 400)
        for k, m in c.bad[:5]:
            print(f"  !! [{k}] {m}")
        print("replay:", "violation reproduced" if c.bad else "no violation on this tree")
        return 1 if c.bad else 0
    return common.replay_trace(data, [O.o_events])
