"""C15 - observability hooks can never alter control flow (hook-fault enumeration, differential)."""

from __future__ import annotations

from .. import gen, oracles as O, rig
from ..view import View
from . import common

JOBS = {"quick": 4, "thorough": 16}
CONTROL = ("op", "strategy", "handler", "sleep", "dsleep", "poll", "budget", "br.allow", "br.success", "br.failure", "br.cancel")
EXCS = ["RuntimeError", "HookBoom", "StopIteration", "KeyError", "AbortRetryError", "RetryExhaustedError", "CircuitOpenError", "TimeoutError", "OSError", "ValueError", "BadStrError", "NonStrError", "TypeError", "BadReprError", "EmptyHookError"]
HOOKS = ["metric", "log", "before_sleep"]


def proj(sc, rec, keep):
    v = View(rec, sc)
    return O.project(v, keep=keep, strip_place=False), O.canon_final(v), v


def timeline_of(rec):
    kind, val = rec.final
    tl = getattr(val, "timeline", None) if kind == "return" else None
    if tl is None:
        return None
    return [(e.event, e.attempt, O.fnum(e.sleep_s), getattr(e.error_class, "name", None), getattr(e.stop_reason, "value", None), e.cause) for e in tl.events]


def site_of(ev):
    """Emission site label for coverage."""
    if ev[0] == "metric" or ev[0] == "log":
        return ev[0] + ":" + ev[1]
    return ev[0]


def one_scenario(ctx, base, entry, rng, tier, stats, manual=True):
    brecs, bh, _ = rig.run(base, entry, manual=manual)
    ctx.inc("baseline_runs")
    counts = [r.counts for r in brecs]
    # all calls of the scenario share the plan: `at` is per call index (counters restart per call)
    total = {h: max((c.get("hook:" + h, 0) for c in counts), default=0) for h in HOOKS}
    base_proj = [proj(base, r, CONTROL) for r in brecs]
    base_metric = [O.project(View(r, base), keep=("metric",), strip_place=False) for r in brecs]
    base_log = [O.project(View(r, base), keep=("log",), strip_place=False) for r in brecs]
    base_bs = [O.project(View(r, base), keep=("before_sleep",), strip_place=False) for r in brecs]
    base_tl = [timeline_of(r) for r in brecs]
    for r in brecs:
        for ev in r.trace:
            if ev[0] in ("metric", "log", "before_sleep"):
                ctx.cnt["site:" + site_of(ev)] += 1
    plans = []
    for h in HOOKS:
        n = total[h]
        if n == 0:
            continue
        idxs = list(range(n)) if n <= 6 or tier != "quick" else sorted(set([0, 1, n - 1] + rng.sample(range(n), 2)))
        for i in idxs:
            plans.append({"kind": "hook", "hook": h, "at": i, "exc": rng.choice(EXCS)})
        for x in (rng.sample(EXCS, 2) if tier == "quick" else EXCS):
            plans.append({"kind": "hook", "hook": h, "at": "always", "exc": x})
    if base["place"].get("before_sleep") == "both" and total.get("before_sleep"):
        # a before_sleep hook at policy level AND one passed to the call: two objects; only one of them fails
        for pl in ("policy", "call"):
            for i in [0, 1, "always"]:
                plans.append({"kind": "hook", "hook": "before_sleep", "at": i, "exc": rng.choice(EXCS), "place": pl})
    if entry.startswith("a") and base.get("bs_kind") == "async" and total.get("before_sleep"):
        # an `async def` hook whose CALL raises (argument binding), at each invocation
        nbs = total["before_sleep"]
        for i in list(range(min(nbs, 3))) + ["always"]:
            plans.append({"kind": "hook", "hook": "before_sleep", "at": i, "exc": "TypeError", "when": "call"})
            ctx.inc("plans_with_an_async_hook_failing_when_called")
    for f in plans:
        sc = dict(base, fault=f)
        recs, h, _ = rig.run(sc, entry, manual=manual)
        ctx.inc("faulted_runs")
        if not manual:
            ctx.inc("faulted_runs_on_the_real_event_loop")
        ctx.inc("calls", len(recs))
        fired = sum(r.fault_fired for r in recs)
        if not fired:
            ctx.inc("fault_not_reached")
            continue
        ctx.cnt["fired:" + f["hook"]] += 1
        ctx.cnt["exc:" + f["exc"]] += 1
        ctx.add("cells", f"{entry}|{f['hook']}|{'always' if f['at'] == 'always' else 'single'}")
        for k, rec in enumerate(recs):
            p, fin, v = proj(sc, rec, CONTROL)
            bp, bfin, bv = base_proj[k]
            ctx.inc("comparisons")
            if p != bp or fin != bfin:
                d = next((i for i in range(min(len(p), len(bp))) if p[i] != bp[i]), min(len(p), len(bp)))
                ctx.viol(
                    f"hook-altered-control-flow:{f['hook']}",
                    f"[{entry} call#{k}] {f['hook']} raising {f['exc']} at {f['at']}: control trace differs from the silent run at event {d}: {p[d:d + 1]} vs {bp[d:d + 1]}; finals {fin} vs {bfin}",
                    common.payload(sc, entry, k),
                )
                break
            # the other sinks still receive every event
            others = []
            if f["hook"] != "metric":
                others.append(("metric", O.project(v, keep=("metric",), strip_place=False), base_metric[k]))
            if f["hook"] != "log":
                others.append(("log", O.project(v, keep=("log",), strip_place=False), base_log[k]))
            if f["hook"] != "before_sleep":
                others.append(("before_sleep", O.project(v, keep=("before_sleep",), strip_place=False), base_bs[k]))
            elif f.get("place"):
                # the hook configured at the other level is "the other hook": it still receives what it receives in the silent run
                ctx.inc("two_level_before_sleep_comparisons")
                others.append(("before_sleep@" + ("call" if f["place"] == "policy" else "policy"), [e for e in O.project(v, keep=("before_sleep",), strip_place=False) if e[1] != f["place"]],
                               [e for e in base_bs[k] if e[1] != f["place"]]))
            tl = timeline_of(rec)
            if base_tl[k] is not None:
                others.append(("timeline", tl, base_tl[k]))
            for name, got, want in others:
                ctx.inc("sink_comparisons")
                if got != want:
                    ctx.viol(
                        f"sink-lost-events:{name}-when-{f['hook']}-fails",
                        f"[{entry} call#{k}] {f['hook']} raising {f['exc']} at {f['at']}: {name} stream differs from the silent run: {got} vs {want}",
                        common.payload(sc, entry, k),
                    )
                    break
    return brecs


def work(ctx, tier):
    stats = {}
    rng = common.rng_for(ctx, "main")
    n = (1200 if tier == "quick" else 16000) // ctx.nshards
    for k in range(n):
        sc = gen.rand_scenario(rng, max_attempts=(1, 5), p_special=0.03, specials=("abort",), p_budget=0.3, p_breaker=0.4, p_handler=0.4, p_abort=0.15, p_before_sleep=0.8,
                               ncalls=(1, 3), placements=(k % 3 == 0), p_no_sleeper=0.15, p_via_attrs=0.25, slow_hooks=(k % 4 == 2))
        sc["timeline"] = rng.choice([True, "obj", False])
        if sc["cfg"].get("breaker"):
            sc["cfg"]["breaker"]["threshold"] = rng.randint(1, 2)
            ents = common.pick_entries(rng, rig.BREAKER_ENTRIES, 3)
        else:
            ents = common.pick_entries(rng, rig.ENTRIES, 3)
        if k % 11 == 0 and sc["cfg"].get("breaker"):
            sc["cfg"]["no_retry"] = True
        for e in ents:
            if k % 4 == 1:
                # the process escalates warnings to errors (python -W error, pytest -W error): whatever the library does with a hook's
                # failure besides swallowing it must not turn into an exception of its own
                import warnings

                with warnings.catch_warnings():
                    warnings.simplefilter("error")
                    b = one_scenario(ctx, sc, e, rng, tier, stats)
                ctx.inc("scenario_runs_with_warnings_as_errors")
                continue
            b = one_scenario(ctx, sc, e, rng, tier, stats)
            if k == 0 and ctx.shard == 0 and len(ctx.samples) < 2:
                ctx.sample({"scenario": {"cfg": sc["cfg"], "place": sc["place"], "call0": sc["calls"][0]}, "baseline": common.describe(b[0], 30), "plan": "each hook x each invocation index (+always) x exception type"})
        ctx.add_hash("scenarios", sc)
        ctx.inc("scenarios")
    # systematic: policies WITHOUT a retry component (with a breaker: closed, or about to admit its probe) whose single attempt is
    # called off before it starts, fails, or succeeds - whatever events such a run reports, a hook failing on them changes nothing
    nr = 0
    for init in ("closed", "expired"):
        for shape in ("preflight-abort", "fails", "succeeds", "aborts"):
            for e in [x for x in rig.BREAKER_ENTRIES if x.lstrip("a").startswith("policy.")]:
                nr += 1
                if nr % ctx.nshards != ctx.shard:
                    continue
                sc = gen.rand_scenario(rng, max_attempts=(1, 2), p_special=0.0, p_budget=0.0, p_breaker=0.0, p_handler=0.0, p_abort=0.0, ncalls=(1, 1))
                sc["cfg"]["no_retry"] = True
                sc["cfg"]["breaker"] = {"threshold": 1, "window": 10.0, "recovery": 5.0, "trip_on": ["TRANSIENT", "SERVER_ERROR"], "class_thresholds": {},
                                        "pre": [] if init == "closed" else [["fail", "TRANSIENT"], ["adv", 5.0 + gen.G]], "init": init}
                sc["timeline"] = False
                sc["poll"] = True
                c = sc["calls"][0]
                c["abort_at"] = 0 if shape == "preflight-abort" else None
                c["outcomes"] = [{"fails": ["exc", "TRANSIENT", None], "succeeds": ["ok"], "aborts": ["sp", "abort"], "preflight-abort": ["ok"]}[shape]]
                one_scenario(ctx, sc, e, rng, tier, stats)
                ctx.inc("retryless_scenarios")
    # a slice on the real asyncio loop: awaitable hooks and a sleeper that takes several loop turns, so that a hook failing while
    # the backoff is pending (anything that overlaps the two) shows as a reordered or missing sleep
    aents = [e for e in rig.ASYNC_ENTRIES if not e.startswith("adeco")]
    m = (120 if tier == "quick" else 2400) // ctx.nshards
    for k in range(m):
        sc = gen.rand_scenario(rng, max_attempts=(2, 4), p_special=0.0, p_budget=0.2, p_breaker=0.3, p_handler=0.3, p_abort=0.1, p_before_sleep=1.0, ncalls=(1, 2), placements=(k % 3 == 0))
        sc["bs_kind"] = rng.choice(["async", "async", "lambda", "sync"])
        sc["sleeper_kind"] = rng.choice(["async", "lambda", "callable"])
        sc["sleeper_turns"] = rng.randint(2, 4)
        if sc["place"].get("sleeper", "call") == "none":
            sc["place"]["sleeper"] = "call"
        pool = [e for e in aents if e.startswith("apolicy")] if sc["cfg"].get("breaker") else aents
        for e in common.pick_entries(rng, pool, 2):
            one_scenario(ctx, sc, e, rng, tier, stats, manual=False)
        ctx.inc("real_loop_scenarios")
    common.flush_stats(ctx, stats)


def conclude(ctx):
    floors = {
        "fired:metric": (ctx.cnt["fired:metric"], 500),
        "fired:log": (ctx.cnt["fired:log"], 500),
        "fired:before_sleep": (ctx.cnt["fired:before_sleep"], 200),
        "comparisons": (ctx.cnt["comparisons"], 3000),
        "sink_comparisons": (ctx.cnt["sink_comparisons"], 3000),
        "distinct (entry, hook, single/always) cells": (len(ctx.sets["cells"]), 60),
        "faulted_runs_on_the_real_event_loop": (ctx.cnt["faulted_runs_on_the_real_event_loop"], 300),
        "scenario_runs_with_warnings_as_errors": (ctx.cnt["scenario_runs_with_warnings_as_errors"], 100),
    }
    for s in ("metric:retry", "metric:success", "metric:aborted", "metric:scheduled", "metric:max_attempts_exceeded", "metric:permanent_fail", "metric:deadline_exceeded", "metric:budget_exhausted",
              "metric:circuit_opened", "metric:circuit_rejected", "metric:circuit_half_open", "metric:circuit_closed", "before_sleep"):
        floors["site:" + s] = (ctx.cnt.get("site:" + s, 0), 5)
    floors["plans_with_an_async_hook_failing_when_called"] = (ctx.cnt["plans_with_an_async_hook_failing_when_called"], 20)
    for x in EXCS:
        floors["exc:" + x] = (ctx.cnt.get("exc:" + x, 0), 10)
    return dict(
        rule=(
            "hook-fault enumeration: per scenario x entry, a silent-hook baseline run counts the invocations of on_metric / on_log / before_sleep (sync and awaitable); one faulted run per "
            "(hook x invocation index) and per (hook x 'always' x exception type) with types drawn from 12 Exception subclasses (incl. StopIteration, AbortRetryError, RetryExhaustedError, "
            "CircuitOpenError, asyncio.TimeoutError, and exceptions whose __str__ raises or returns a non-str); the control projection {operations, strategy calls, handler, sleeps, polls, budget, breaker records, final} must equal the baseline's and the other "
            "sinks (metric/log/before_sleep/timeline) must receive the same events; a slice runs on the real asyncio loop with awaitable hooks and a sleeper that takes 2-4 loop turns; distinct_nontrivial = distinct (entry, hook, single/always) cells in which the fault fired"
        ),
        evaluations=ctx.cnt["faulted_runs"] + ctx.cnt["baseline_runs"],
        nontrivial=len(ctx.sets["cells"]),
        floors=floors,
        assumptions=common.ASSUME_COMMON + ["only exceptions deriving from Exception are injected into hooks (the property's scope); BaseException types are C13's business"],
        extra={"emission_sites": {k: v for k, v in ctx.cnt.items() if k.startswith("site:")}},
        exhaustive=False,
    )


def replay(data):
    p = data["payload"]
    sc, entry, k = p["scenario"], p["entry"], p.get("call", 0)
    base = dict(sc, fault=None)
    manual = "sleeper_turns" not in sc
    b, _, _ = rig.run(base, entry, manual=manual)
    r, _, _ = rig.run(sc, entry, manual=manual)
    keep = CONTROL + ("metric", "log", "before_sleep")
    pa = O.project(View(b[k], base), keep=keep, strip_place=False)
    pb = O.project(View(r[k], sc), keep=keep, strip_place=False)
    print("silent run | faulted run  (fault:", sc["fault"], ")")
    for i in range(max(len(pa), len(pb))):
        x = pa[i] if i < len(pa) else None
        y = pb[i] if i < len(pb) else None
        print(" ", "==" if x == y else "!=", x, "|", y)
    fa, fb = O.canon_final(View(b[k], base)), O.canon_final(View(r[k], sc))
    print("  final", fa, "|", fb, "| timelines", timeline_of(b[k]) == timeline_of(r[k]))
    ca = [e for e in pa if e[0] in CONTROL or e[0] == "sleep"]
    cb = [e for e in pb if e[0] in CONTROL or e[0] == "sleep"]
    f = sc["fault"]["hook"]
    other_bad = any([e for e in pa if e[0] == s] != [e for e in pb if e[0] == s] for s in ("metric", "log", "before_sleep") if s != f)
    bad = ca != cb or fa != fb or other_bad or timeline_of(b[k]) != timeline_of(r[k])
    print("replay:", "violation reproduced" if bad else "no violation on this tree")
    return 1 if bad else 0
