"""C16 - sleep-handler protocol: SLEEP sleeps, DEFER schedules, ABORT aborts; call-level overrides."""

from __future__ import annotations

import itertools

from .. import gen, oracles as O, rig
from ..view import View
from . import common

JOBS = {"quick": 4, "thorough": 16}
PLACES = ["none", "policy", "call", "both"]


def _one(ctx, sc, entry, stats, sample=False):
    recs, h, w = rig.run(sc, entry)
    ctx.inc("runs")
    ctx.inc("calls", len(recs))
    before = stats.get("granted_retries", 0)
    common.check_recs(ctx, sc, entry, recs, [O.o_handler], stats)
    if stats.get("granted_retries", 0) > before:
        p = sc["place"]
        ctx.cell("placement", p["handler"], p["before_sleep"], p["sleeper"])
        ctx.add_hash("nontrivial", [p, sc.get("bs_kind"), sc.get("sleeper_kind"), [c.get("handler") for c in sc["calls"]], [c["outcomes"] for c in sc["calls"]], entry])
        fam = ("async-" + sc.get("bs_kind", "sync") + "-hook/" + sc.get("sleeper_kind", "async") + "-sleeper") if entry.startswith("a") else "sync"
        ctx.cell("family", fam)
    if sample:
        ctx.sample({"scenario": {"place": sc["place"], "handler": sc["calls"][0].get("handler")}, **common.describe(recs[0], 40)})


def work(ctx, tier):
    stats = {}
    rng = common.rng_for(ctx, "main")
    # bounded-exhaustive: all handler decision sequences up to length L x placement matrix (strided)
    L = 4 if tier == "quick" else 5
    i = 0
    for n in range(1, L + 1):
        for seq in itertools.product(["sleep", "defer", "abort"], repeat=n):
            # only sequences whose non-final decisions are 'sleep' reach the later positions; keep all (the
            # engine stops at the first defer/abort, later entries are unused) but skip duplicates
            if any(d != "sleep" for d in seq[:-1]):
                continue
            for hp, bp, sp in itertools.product(PLACES, repeat=3):
                i += 1
                if i % ctx.nshards != ctx.shard:
                    continue
                if hp == "none" and n > 1:
                    continue
                outs = [[["exc", "res"][(i + j) % 2], gen.RETRYABLE[(i + j) % 4], None] for j in range(n)] + [["ok"]]
                place = {"handler": hp, "before_sleep": bp, "sleeper": sp, "hooks": "none"}
                sc = {"cfg": gen.mk_cfg(max_attempts=n + 1), "place": place, "bs_kind": ["sync", "async", "lambda"][i % 3], "sleeper_kind": ["async", "sync", "lambda", "callable", "falsy"][(i // 3) % 5], "timeline": False, "poll": False,
                      "calls": [gen.mk_call(outs, strat_values=[0.25, 0.5, 1.0, 0.0, 3.0][:n + 1], handler=list(seq) if hp != "none" else None)], "fault": None}
                for e in (rig.ENTRIES[i % 20], rig.ENTRIES[(i + 7) % 20]):
                    _one(ctx, sc, e, stats, sample=(i < 3))
                ctx.inc("sweep_scenarios")
    n = (20000 if tier == "quick" else 300000) // ctx.nshards
    for k in range(n):
        sc = gen.rand_scenario(rng, p_special=0.02, p_attempt_timeout=0.12, p_budget=0.3, p_handler=0.6, p_abort=0.15, p_before_sleep=0.6, ncalls=(1, 3), placements=True, slow_hooks=(k % 2 == 0), exotic_callables=True, call_kw_drops=True, p_via_attrs=0.25, p_bogus_handler=0.15, p_breaker=0.2, p_via_config=0.25)
        if k % 5 == 1 and sc["place"]["before_sleep"] != "none":
            # a before_sleep hook that fails on one particular retry (or always): the backoff it announces still has to happen
            sc["fault"] = {"kind": "hook", "hook": "before_sleep", "at": rng.choice([0, 1, 2, "always"]), "exc": rng.choice(gen.CB_EXCS + ["AbortRetryError", "EmptyHookError"])}
            ctx.inc("scenarios_with_raising_before_sleep")
        if k % 8 == 3:
            # long horizons: a deadline of days and backoffs of hours (batch jobs, Retry-After from a maintenance window) - one SLEEP is
            # still one sleeper call with the whole delay
            sc["cfg"]["deadline_s"] = 400000.0
            for c in sc["calls"]:
                c["strat_values"] = [rng.choice([3600.0, 3600.0 + gen.G, 4000.0, 7200.0, 9000.0, 86400.0, 0.5]) for _ in c["strat_values"]]
            ctx.inc("scenarios_with_backoffs_of_hours")
        for e in common.pick_entries(rng, rig.ENTRIES, 3):
            _one(ctx, sc, e, stats)
        ctx.inc("random_scenarios")
    common.crossing_slice(ctx, tier, common.rng_for(ctx, "crossing"), lambda sc, e: _one(ctx, sc, e, stats))
    common.flush_stats(ctx, stats)


def conclude(ctx):
    floors = {
        "scenarios_with_backoffs_of_hours": (ctx.cnt["scenarios_with_backoffs_of_hours"], 200),
        "granted_retries": (ctx.cnt["granted_retries"], 5000),
        "decision:sleep": (ctx.cnt["decision:sleep"], 1000),
        "decision:defer": (ctx.cnt["decision:defer"], 300),
        "decision:abort": (ctx.cnt["decision:abort"], 300),
        "scenarios_with_raising_before_sleep": (ctx.cnt["scenarios_with_raising_before_sleep"], 300),
    }
    common.crossing_floors(ctx, floors)
    cells = [k for k in ctx.cnt if k.startswith("placement:")]
    floors["placement cells (of 64)"] = (len(cells), 60)
    for fam in ("sync", "async-sync-hook/async-sleeper", "async-async-hook/async-sleeper", "async-async-hook/sync-sleeper", "async-lambda-hook/callable-sleeper", "async-sync-hook/lambda-sleeper", "async-async-hook/callable-sleeper"):
        floors["family:" + fam] = (ctx.cnt.get("family:" + fam, 0), 100)
    return dict(
        rule=(
            "bounded-exhaustive: every handler decision sequence sleep^k.(sleep|defer|abort), k < L, x the full 4x4x4 placement matrix {none, policy, call, both} for handler / before_sleep / sleeper "
            "(entries rotated; decorator entries only have construction-time placement) + random scenarios with budgets, aborts, deadlines, slow handlers/hooks (virtual time passes between the delay being computed and the sleeper being called) and awaitable hooks/sleepers of every shape "
            "(async def, lambda returning a coroutine, object with async __call__), a fifth of them with a before_sleep hook that raises on one retry or always; "
            "non-trivial = run with at least one granted retry whose protocol was checked; distinct = distinct (placement, hook kinds, decision lists, scripts, entry)"
        ),
        evaluations=ctx.cnt["calls"],
        nontrivial=len(ctx.sets["nontrivial"]),
        floors=floors,
        assumptions=common.ASSUME_COMMON + ["a granted retry is identified by its `retry` event; 'no sleeper configured' is observed through the interposed time.sleep/asyncio.sleep"],
        extra={"sweep_decision_sequence_length": 4 if ctx.tier == "quick" else 5},
        exhaustive=False,
    )


def replay(data):
    return common.replay_trace(data, [O.o_handler])
