"""C17 - Budget and CircuitBreaker are atomic under concurrent threads.

Small concurrent programs over the real components run under the controlled scheduler
(rv.sched): pre-emption possible before every source line of the component, lock contention
modelled by a scheduler-aware lock.  Each schedule's (per-thread results, observable
continuation) must equal that of SOME sequential order-respecting execution on a fresh
component; a schedule in which every unfinished thread is blocked is a deadlock.
A free-running stress with real threads and real locks is the second line.
"""

from __future__ import annotations

import itertools
import sys
import threading

from .. import env, sched
from . import common

from redress import Budget, CircuitBreaker, ErrorClass  # noqa: E402

JOBS = {"quick": 4, "thorough": 16}
TIMEOUT = {"quick": 600, "thorough": 3600}
EC = ErrorClass
T0 = 1024.0


# ------------------------------------------------------------------ operations (name -> callable)
def op_allow(b):
    d = b.allow()
    return ("allow", d.allowed, d.state.value, d.event)


def op_success(b):
    return ("success", b.record_success())


def op_fail_t(b):
    return ("fail", b.record_failure(EC.TRANSIENT))


def op_fail_s(b):
    return ("fail", b.record_failure(EC.SERVER_ERROR))


def op_cancel(b):
    b.record_cancel()
    return ("cancel",)


def op_state(b):
    return ("state", b.state.value)


def op_c1(b):
    return ("consume1", b.consume(1))


def op_c2(b):
    return ("consume2", b.consume(2))


def op_rem(b):
    return ("remaining", b.remaining())


OPS = {"allow": op_allow, "success": op_success, "failT": op_fail_t, "failS": op_fail_s, "cancel": op_cancel, "state": op_state, "c1": op_c1, "c2": op_c2, "rem": op_rem}
BREAKER_OPS = ["allow", "success", "failT", "failS", "cancel", "state"]
BUDGET_OPS = ["c1", "c2", "rem"]


# ------------------------------------------------------------------ initial states
def mk_breaker(init, world):
    def make():
        world.t = T0
        b = CircuitBreaker(failure_threshold=2, window_s=10.0, recovery_timeout_s=5.0, class_thresholds={EC.SERVER_ERROR: 2})
        if init == "closed":
            pass
        elif init == "near":
            b.record_failure(EC.TRANSIENT)
        elif init == "open":
            b.record_failure(EC.TRANSIENT)
            b.record_failure(EC.TRANSIENT)
        elif init == "expired":
            b.record_failure(EC.TRANSIENT)
            b.record_failure(EC.TRANSIENT)
            world.t += 6.0
        elif init == "probing":
            b.record_failure(EC.TRANSIENT)
            b.record_failure(EC.TRANSIENT)
            world.t += 6.0
            b.allow()
        elif init == "stale-failure":
            # one counted failure that has aged out of the window by the time of the race
            b.record_failure(EC.TRANSIENT)
            world.t += 11.0
        elif init == "stale+fresh":
            b.record_failure(EC.SERVER_ERROR)
            world.t += 6.0
            b.record_failure(EC.TRANSIENT)
            world.t += 5.0
        elif init == "halfopen-free":
            b.record_failure(EC.TRANSIENT)
            b.record_failure(EC.TRANSIENT)
            world.t += 6.0
            b.allow()
            b.record_cancel()
        return b

    return make


def mk_budget(init, world):
    def make():
        world.t = T0
        b = Budget(max_retries=3, window_s=10.0)
        if init == "one-left":
            b.consume(2)
        elif init == "two-left":
            b.consume(1)
        elif init == "full":
            b.consume(3)
        elif init == "all-expired":
            # the window is full of tokens that have all aged out by the time of the race
            b.consume(3)
            world.t += 11.0
        elif init == "expired-head+live":
            b.consume(2)
            world.t += 6.0
            b.consume(1)
            world.t += 5.0
        return b

    return make


def fingerprint(obj, world):
    """Observable continuation: hidden state differences surface without reading private fields."""
    if isinstance(obj, CircuitBreaker):
        fp = [obj.state.value]
        d = obj.allow()
        fp.append((d.allowed, d.state.value))
        n = 0
        while obj.state.value == "closed" and n < 4:
            obj.record_failure(EC.TRANSIENT)
            n += 1
        fp.append(n)
        world.t += 6.0
        d = obj.allow()
        fp.append((d.allowed, d.state.value))
        d = obj.allow()
        fp.append((d.allowed, d.state.value))
        return tuple(fp)
    r = obj.remaining()
    got = 0
    while obj.consume(1) and got < 10:
        got += 1
    return (r, got)


def sequential_spec(make, program, world):
    out = set()
    tags = [i for i, p in enumerate(program) for _ in p]
    for perm in set(itertools.permutations(tags)):
        obj = make()
        res = [[] for _ in program]
        pos = [0] * len(program)
        for i in perm:
            res[i].append(OPS[program[i][pos[i]]](obj))
            pos[i] += 1
        out.add((tuple(tuple(r) for r in res), fingerprint(obj, world)))
    return out


def programs_for(kind, rng, n):
    ops = BREAKER_OPS if kind == "breaker" else BUDGET_OPS
    inits = ["closed", "near", "open", "expired", "probing", "halfopen-free", "stale-failure", "stale+fresh"] if kind == "breaker" else ["empty", "two-left", "one-left", "full", "all-expired", "expired-head+live"]
    fixed = []
    if kind == "breaker":
        fixed = [
            ("expired", [["allow"], ["allow"]]),
            ("expired", [["allow"], ["allow"], ["allow"]]),
            ("near", [["failT"], ["failT"]]),
            ("near", [["failT"], ["failS"], ["failT"]]),
            ("probing", [["success"], ["failT"]]),
            ("probing", [["cancel"], ["allow"]]),
            ("halfopen-free", [["allow", "success"], ["allow", "failT"]]),
            ("expired", [["allow", "success"], ["allow", "failT"]]),
            ("closed", [["failS", "failS"], ["failS", "state"]]),
            ("open", [["allow"], ["failT"], ["state"]]),
            ("stale-failure", [["failT"], ["failT"]]),
            ("stale+fresh", [["failT"], ["failS"]]),
        ]
    else:
        fixed = [
            ("one-left", [["c1"], ["c1"]]),
            ("one-left", [["c1"], ["c1"], ["c1"]]),
            ("two-left", [["c2"], ["c1"]]),
            ("two-left", [["c2"], ["c2"]]),
            ("empty", [["c2", "rem"], ["c2", "rem"]]),
            ("full", [["c1"], ["rem"]]),
            ("empty", [["c1", "c1"], ["c1", "c1"], ["rem"]]),
            ("all-expired", [["c2"], ["c2"]]),
            ("all-expired", [["c1"], ["c2"], ["rem"]]),
            ("expired-head+live", [["c2"], ["c1"]]),
            ("expired-head+live", [["c1"], ["c1"], ["c1"]]),
        ]
    rnd = []
    while len(rnd) < n:
        k = rng.choice([2, 2, 3])
        prog = [[rng.choice(ops) for _ in range(rng.choice([1, 1, 2]))] for _ in range(k)]
        rnd.append((rng.choice(inits), prog))
    return fixed, rnd


def explore(ctx, kind, init, program, world, rng, bound, limit, nrandom):
    make = mk_breaker(init, world) if kind == "breaker" else mk_budget(init, world)
    spec = sequential_spec(make, program, world)
    ctx.cnt["sequential_orders_run"] += len(spec)
    progs = [[OPS[o] for o in th] for th in program]
    desc = {"component": kind, "initial_state": init, "program": program}
    seen = set()
    outcomes = set()
    contention = 0
    prefix = []
    n = 0
    mode = "dfs"
    rwalks = 0
    while True:
        r = sched.run_schedule(make, progs, prefix=prefix if mode == "dfs" else (), rng=None if mode == "dfs" else rng)
        s = r["sched"]
        n += 1
        key = tuple(x[1] for x in s.trace)
        seen.add(key)
        ctx.cnt["schedules_run"] += 1
        ctx.cnt["line_events"] += s.line_events
        ctx.cnt["lock_contention_events"] += s.contention
        contention += s.contention
        ctx.cnt["lock_obtained_via:" + r["lock_how"]] += 1
        if not r["completed"] and not s.deadlock:
            ctx.inconclusive_because(f"scheduler watchdog fired for {desc}")
            return
        if s.deadlock:
            ctx.viol("deadlock", f"all unfinished threads blocked: {desc}; schedule {list(key)}", {"desc": desc, "schedule": list(key)})
            return
        if r["errors"]:
            ctx.viol("operation-raised-under-concurrency", f"{r['errors']} in {desc}; schedule {list(key)}", {"desc": desc, "schedule": list(key)})
            return
        res = tuple(tuple(x) for x in r["results"])
        fp = fingerprint(r["obj"], world)
        outcomes.add((res, fp))
        if (res, fp) not in spec:
            k = "non-linearizable:" + kind
            ctx.viol(k, f"{desc}: concurrent results {res} with continuation {fp} equal no sequential ordering (schedule {list(key)}; {len(spec)} sequential outcomes)", {"desc": desc, "schedule": list(key)})
            return
        if mode == "dfs":
            nxt = sched.next_prefix(s.trace, bound)
            if nxt is None or n >= limit:
                if nxt is None:
                    ctx.cnt["programs_dfs_exhausted_within_bound"] += 1
                mode = "random"
                continue
            prefix = nxt
        else:
            rwalks += 1
            if rwalks >= nrandom:
                break
    ctx.cnt["programs"] += 1
    for k_ in seen:
        ctx.add_hash("schedules", [kind, init, program, list(k_)])
    ctx.mx("max_distinct_outcomes_per_program", len(outcomes))
    ctx.cnt["distinct_outcome_vectors"] += len(outcomes)
    if contention:
        ctx.cnt["programs_with_lock_contention"] += 1
    return len(seen)


def stress(ctx, world, rng, rounds, nthreads):
    """Second line: free-running real threads, real locks, tiny switch interval; conservation checks."""
    old = sys.getswitchinterval()
    sys.setswitchinterval(1e-6)
    try:
        for r in range(rounds):
            world.t = T0
            # racing probes
            b = CircuitBreaker(failure_threshold=1, window_s=10.0, recovery_timeout_s=5.0)
            b.record_failure(EC.TRANSIENT)
            world.t += 6.0
            res = []
            bar = threading.Barrier(nthreads)

            def probe():
                bar.wait()
                res.append(b.allow().allowed)

            ths = [threading.Thread(target=probe) for _ in range(nthreads)]
            [t.start() for t in ths]
            [t.join() for t in ths]
            ctx.cnt["stress_rounds"] += 1
            if sum(res) != 1:
                ctx.viol("stress:probes-admitted", f"{sum(res)} of {nthreads} racing allow() calls admitted after the timeout", {"stress": "probe", "admitted": sum(res)})
                return
            # racing failures open exactly once
            b = CircuitBreaker(failure_threshold=nthreads, window_s=10.0, recovery_timeout_s=5.0)
            res2 = []
            bar2 = threading.Barrier(nthreads)

            def failer():
                bar2.wait()
                res2.append(b.record_failure(EC.TRANSIENT))

            ths = [threading.Thread(target=failer) for _ in range(nthreads)]
            [t.start() for t in ths]
            [t.join() for t in ths]
            if res2.count("circuit_opened") != 1:
                ctx.viol("stress:opened-count", f"{nthreads} racing failures at threshold {nthreads}: circuit_opened returned {res2.count('circuit_opened')} times", {"stress": "open", "n": res2.count("circuit_opened")})
                return
            # racing consumes never over-grant
            bud = Budget(max_retries=nthreads // 2, window_s=10.0)
            res3 = []
            bar3 = threading.Barrier(nthreads)

            def consumer():
                bar3.wait()
                res3.append(bud.consume(1))

            ths = [threading.Thread(target=consumer) for _ in range(nthreads)]
            [t.start() for t in ths]
            [t.join() for t in ths]
            if sum(res3) != nthreads // 2 or bud.remaining() != 0:
                ctx.viol("stress:over-grant", f"{sum(res3)} grants from a budget of {nthreads // 2}; remaining {bud.remaining()}", {"stress": "budget", "grants": sum(res3)})
                return
    finally:
        sys.setswitchinterval(old)


def work(ctx, tier):
    rng = common.rng_for(ctx, "main")
    world = env.World()
    nprog = max(2, (32 if tier == "quick" else 480) // ctx.nshards)
    bound = 2 if tier == "quick" else 3
    limit = 350 if tier == "quick" else 6000
    nrandom = 60 if tier == "quick" else 600
    with env.active(world):
        for kind in ("breaker", "budget"):
            fixed, rnd = programs_for(kind, rng, nprog if kind == "breaker" else max(nprog // 2, 2))
            # fixed programs are split across shards, random ones differ per shard already
            progs = [fp for i, fp in enumerate(fixed) if i % ctx.nshards == ctx.shard] + rnd
            for i, (init, prog) in enumerate(progs):
                k = explore(ctx, kind, init, prog, world, rng, bound, limit, nrandom)
                if len(ctx.samples) < 3 and ctx.shard == 0 and k:
                    ctx.sample({"component": kind, "initial_state": init, "program": prog, "distinct_schedules_explored": k})
        stress(ctx, world, rng, 15 if tier == "quick" else 200, 8)
    sched.uninstall_monitor()


def conclude(ctx):
    floors = {
        "programs": (ctx.cnt["programs"], 20),
        "distinct schedules": (len(ctx.sets["schedules"]), 2000),
        "lock_contention_events": (ctx.cnt["lock_contention_events"], 1000),
        "programs_with_lock_contention": (ctx.cnt["programs_with_lock_contention"], 15),
        "line_events": (ctx.cnt["line_events"], 50000),
        "lock_obtained_via:factory": (ctx.cnt["lock_obtained_via:factory"], 1),
        "stress_rounds": (ctx.cnt["stress_rounds"], 10),
    }
    return dict(
        rule=(
            "programs of 2-3 threads x 1-2 operations over {allow, record_success, record_failure(TRANSIENT|SERVER_ERROR), record_cancel, state} resp. {consume(1), consume(2), remaining()} from "
            "initial states {closed, one failure short, open, open-expired, half-open probing, half-open free, stale failure, stale+fresh failures} resp. {empty, two left, one left, full, all tokens expired, expired head + live token}; each program: DFS over schedules with a pre-emption "
            "bound (pre-emption possible before every source line of the component and at every lock operation) followed by seeded random walks; each schedule's (results, observable continuation) is looked up in "
            "the set produced by all sequential order-respecting executions; distinct_nontrivial = distinct schedules (choice sequences); a schedule counts only if LINE events were delivered"
        ),
        evaluations=ctx.cnt["schedules_run"],
        nontrivial=len(ctx.sets["schedules"]),
        floors=floors,
        assumptions=[
            "pre-emption is injected at source-line granularity (sys.monitoring LINE events inside the redress package) and at lock acquire/release; bytecode-level pre-emption only in the free-running stress",
            "the clock is frozen during a race (the components read it outside the lock by design)",
            "the component is its own sequential specification (C06/C07/C10 tie it to the models)",
            "schedules beyond the pre-emption bound are sampled by random walks only",
        ],
        extra={"preemption_bound": 2 if ctx.tier == "quick" else 3, "deadlocks": 0, "max_distinct_outcomes_per_program": ctx.maxs.get("max_distinct_outcomes_per_program")},
        exhaustive=False,
    )


def replay(data):
    p = data["payload"]
    if "stress" in p:
        print("stress findings are not replayable deterministically; re-run the check")
        return 1
    d = p["desc"]
    world = env.World()
    with env.active(world):
        make = mk_breaker(d["initial_state"], world) if d["component"] == "breaker" else mk_budget(d["initial_state"], world)
        spec = sequential_spec(make, d["program"], world)
        progs = [[OPS[o] for o in th] for th in d["program"]]
        r = sched.run_schedule(make, progs, prefix=p["schedule"])
        res = tuple(tuple(x) for x in r["results"])
        bad = r["sched"].deadlock or bool(r["errors"])
        fp = None
        if not bad:
            fp = fingerprint(r["obj"], world)
            bad = (res, fp) not in spec
    sched.uninstall_monitor()
    print("program", d, "\nschedule", p["schedule"], "\nresults", res, "continuation", fp, "deadlock", r["sched"].deadlock, "errors", r["errors"])
    print("sequential outcomes:")
    for s_ in sorted(spec, key=repr)[:12]:
        print("   ", s_)
    print("replay:", "violation reproduced" if bad else "no violation on this tree")
    return 1 if bad else 0
