"""C17 - Budget and CircuitBreaker are atomic under concurrent threads.

Small concurrent programs over the real components run under the controlled scheduler
(rv.sched): pre-emption possible before every source line of the component, lock contention
modelled by a scheduler-aware lock.  Each schedule's (per-thread results, observable
continuation) must equal that of SOME sequential order-respecting execution on a fresh
component; a schedule in which every unfinished thread is blocked is a deadlock.
A free-running stress with real threads and real locks is the second line.
"""

from __future__ import annotations

import itertools
import sys
import threading

from .. import env, sched
from . import common

from redress import Budget, CircuitBreaker, ErrorClass  # noqa: E402

JOBS = {"quick": 4, "thorough": 16}
TIMEOUT = {"quick": 600, "thorough": 3600}
EC = ErrorClass
T0 = 1024.0


# ------------------------------------------------------------------ operations (name -> callable)
def op_allow(b):
    d = b.allow()
    return ("allow", d.allowed, d.state.value, d.event)


def op_success(b):
    return ("success", b.record_success())


def op_fail_t(b):
    return ("fail", b.record_failure(EC.TRANSIENT))


def op_fail_s(b):
    return ("fail", b.record_failure(EC.SERVER_ERROR))


def op_cancel(b):
    b.record_cancel()
    return ("cancel",)


def op_state(b):
    return ("state", b.state.value)


def op_lower(b):
    # the operator lowers the limit of the live budget (a public attribute) while others use it
    b.max_retries = 1
    return ("set", 1)


def op_raise(b):
    b.max_retries = 5
    return ("set", 5)


def op_timer(b):
    return b.rv_clock.fire_timer(b)


def op_c1(b):
    return ("consume1", b.consume(1))


def op_c2(b):
    return ("consume2", b.consume(2))


def op_rem(b):
    return ("remaining", b.remaining())


OPS = {"lower": op_lower, "raise": op_raise, "timer": op_timer, "allow": op_allow, "success": op_success, "failT": op_fail_t, "failS": op_fail_s, "cancel": op_cancel, "state": op_state, "c1": op_c1, "c2": op_c2, "rem": op_rem}
BREAKER_OPS = ["allow", "success", "failT", "failS", "cancel", "state"]
BUDGET_OPS = ["c1", "c2", "rem"]


# ------------------------------------------------------------------ initial states
class LockedClock:
    """A simulated clock with its own mutex (advance() fires timers while holding it).  The breaker calls it; a timer calls the breaker."""

    def __init__(self, world):
        self.world = world
        self.lock = sched.new_lock() or threading.Lock()

    def __call__(self):
        with self.lock:
            return self.world.t

    def fire_timer(self, b):
        # what advance() does with a due timer whose callback looks at the breaker
        with self.lock:
            return ("timer", b.state.value)


def mk_breaker(init, world, locked_clock=False):
    def make():
        world.t = T0
        kw = {}
        if locked_clock:
            kw["clock"] = LockedClock(world)
        b = CircuitBreaker(failure_threshold=2, window_s=10.0, recovery_timeout_s=5.0, class_thresholds={EC.SERVER_ERROR: 2}, **kw)
        if locked_clock:
            b.rv_clock = kw["clock"]
        if init == "closedC":
            # the class threshold is the only one within reach
            b = CircuitBreaker(failure_threshold=5, window_s=10.0, recovery_timeout_s=5.0, class_thresholds={EC.SERVER_ERROR: 2}, **kw)
        elif init == "near3":
            # threshold 3, one counted failure so far: two more racing failures must open the circuit exactly once
            b = CircuitBreaker(failure_threshold=3, window_s=10.0, recovery_timeout_s=5.0, class_thresholds={EC.SERVER_ERROR: 2}, **kw)
            b.record_failure(EC.TRANSIENT)
        elif init == "closed":
            pass
        elif init == "near":
            b.record_failure(EC.TRANSIENT)
        elif init == "open":
            b.record_failure(EC.TRANSIENT)
            b.record_failure(EC.TRANSIENT)
        elif init == "expired":
            b.record_failure(EC.TRANSIENT)
            b.record_failure(EC.TRANSIENT)
            world.t += 6.0
        elif init == "probing":
            b.record_failure(EC.TRANSIENT)
            b.record_failure(EC.TRANSIENT)
            world.t += 6.0
            b.allow()
        elif init == "stale-failure":
            # one counted failure that has aged out of the window by the time of the race
            b.record_failure(EC.TRANSIENT)
            world.t += 11.0
        elif init == "stale+fresh":
            b.record_failure(EC.SERVER_ERROR)
            world.t += 6.0
            b.record_failure(EC.TRANSIENT)
            world.t += 5.0
        elif init == "halfopen-free":
            b.record_failure(EC.TRANSIENT)
            b.record_failure(EC.TRANSIENT)
            world.t += 6.0
            b.allow()
            b.record_cancel()
        return b

    return make


def mk_budget(init, world):
    def make():
        world.t = T0
        if init.startswith("aged-"):
            # a budget that has been around: N tokens granted so far (one bulk request), room for a few more
            n = int(init.split("-")[1])
            b = Budget(max_retries=n + 6, window_s=10.0)
            b.consume(n)
            return b
        b = Budget(max_retries=3, window_s=10.0)
        if init == "one-left":
            b.consume(2)
        elif init == "two-left":
            b.consume(1)
        elif init == "full":
            b.consume(3)
        elif init == "all-expired":
            # the window is full of tokens that have all aged out by the time of the race
            b.consume(3)
            world.t += 11.0
        elif init == "expired-head+live":
            b.consume(2)
            world.t += 6.0
            b.consume(1)
            world.t += 5.0
        return b

    return make


def fingerprint(obj, world):
    """Observable continuation: hidden state differences surface without reading private fields."""
    if isinstance(obj, CircuitBreaker):
        fp = [obj.state.value]
        d = obj.allow()
        fp.append((d.allowed, d.state.value))
        n = 0
        while obj.state.value == "closed" and n < 4:
            obj.record_failure(EC.TRANSIENT)
            n += 1
        fp.append(n)
        world.t += 6.0
        d = obj.allow()
        fp.append((d.allowed, d.state.value))
        d = obj.allow()
        fp.append((d.allowed, d.state.value))
        return tuple(fp)
    r = obj.remaining()
    got = 0
    while obj.consume(1) and got < 10:
        got += 1
    return (r, got)


def sequential_spec(make, program, world):
    out = set()
    tags = [i for i, p in enumerate(program) for _ in p]
    for perm in set(itertools.permutations(tags)):
        # scheduler-aware locks here too: a thread that re-enters a lock it holds is reported instead of hanging the check
        with sched.sequential():
            obj = make()
            res = [[] for _ in program]
            pos = [0] * len(program)
            for i in perm:
                res[i].append(OPS[program[i][pos[i]]](obj))
                pos[i] += 1
            out.add((tuple(tuple(r) for r in res), fingerprint(obj, world)))
    return out


def programs_for(kind, rng, n):
    ops = BREAKER_OPS if kind == "breaker" else BUDGET_OPS
    inits = ["closed", "near", "open", "expired", "probing", "halfopen-free", "stale-failure", "stale+fresh", "closedC", "near3"] if kind == "breaker" else ["empty", "two-left", "one-left", "full", "all-expired", "expired-head+live"]
    fixed = []
    if kind == "breaker":
        fixed = [
            ("expired", [["allow"], ["allow"]]),
            ("expired", [["allow"], ["allow"], ["allow"]]),
            ("near", [["failT"], ["failT"]]),
            ("near", [["failT"], ["failS"], ["failT"]]),
            ("probing", [["success"], ["failT"]]),
            ("probing", [["cancel"], ["allow"]]),
            ("halfopen-free", [["allow", "success"], ["allow", "failT"]]),
            ("expired", [["allow", "success"], ["allow", "failT"]]),
            ("closed", [["failS", "failS"], ["failS", "state"]]),
            ("open", [["allow"], ["failT"], ["state"]]),
            ("stale-failure", [["failT"], ["failT"]]),
            ("stale+fresh", [["failT"], ["failS"]]),
            # a transition that happens while another thread is already queued on the lock
            ("probing", [["success"], ["failT"], ["failT"]]),
            ("probing", [["success"], ["allow"], ["failT"]]),
            ("near", [["failT"], ["allow"], ["failT"]]),
            # the first failures of a class / of the breaker arrive from two threads at once (anything created on first use)
            ("closed", [["failS"], ["failS"]]),
            ("closed", [["failS"], ["failS"], ["state"]]),
            ("closed", [["failT"], ["failT"]]),
            ("near3", [["failT"], ["failT"]]),
            ("closedC", [["failS"], ["failS"]]),
            ("closedC", [["failS"], ["failS"], ["failT"]]),
            ("closedC~", [["failS"], ["failS"]]),
            # the same while the clock moves a little between a thread's clock reading and its turn on the lock (trailing "~": a ticker
            # thread advances the clock by 0.5 s steps; far less than window_s / recovery_timeout_s, so every sequential order gives the same answers)
            ("near3~", [["failT"], ["failT"]]),
            ("near~", [["failT"], ["failS"], ["failT"]]),
            ("closed~", [["failS", "failS"], ["failS", "state"]]),
            ("closed~", [["failT"], ["failT"], ["allow"]]),
            # more failures in flight than the threshold needs: the ones that arrive after the trip count for nothing
            ("closed", [["failT", "failT"], ["failT", "failT"]]),
            ("near", [["failT"], ["failT"], ["failT", "failT"]]),
            ("closedC", [["failS", "failS"], ["failS", "failS"]]),
            # trailing "@": the injected clock has a mutex of its own, and a timer fired under that mutex reads the breaker's state
            # (lock order clock -> breaker); the breaker must never call the clock while holding its own lock
            ("expired@", [["allow"], ["timer"]]),
            ("open@", [["allow"], ["timer"]]),
            ("near@", [["failT"], ["timer"]]),
            ("probing@", [["failT"], ["timer"], ["allow"]]),
            ("closed@", [["allow", "failT"], ["timer", "timer"]]),
        ]
    else:
        fixed = [
            ("one-left", [["c1"], ["c1"]]),
            ("one-left", [["c1"], ["c1"], ["c1"]]),
            ("two-left", [["c2"], ["c1"]]),
            ("two-left", [["c2"], ["c2"]]),
            ("empty", [["c2", "rem"], ["c2", "rem"]]),
            ("full", [["c1"], ["rem"]]),
            ("empty", [["c1", "c1"], ["c1", "c1"], ["rem"]]),
            ("all-expired", [["c2"], ["c2"]]),
            ("all-expired", [["c1"], ["c2"], ["rem"]]),
            ("expired-head+live", [["c2"], ["c1"]]),
            ("expired-head+live", [["c1"], ["c1"], ["c1"]]),
            # long-lived budgets: whatever the component does "once in a while" (every so many grants) happens in the middle of a race
            ("aged-1023", [["c1"], ["c1"]]),
            ("aged-4095", [["c1"], ["c1"]]),
            ("aged-4095", [["c1"], ["c1"], ["rem"]]),
            ("aged-999", [["c1"], ["c2"]]),
            ("aged-9999", [["c1"], ["c1"]]),
            ("aged-65535", [["c1"], ["c1"]]),
            # the limit of the live budget is changed by one thread while others ask
            ("two-left", [["rem"], ["lower"]]),
            ("one-left", [["rem", "rem"], ["lower"]]),
            ("two-left", [["c1", "rem"], ["lower"], ["rem"]]),
            ("full", [["rem"], ["raise"], ["c1"]]),
            ("empty", [["c2", "rem"], ["lower"], ["c1"]]),
        ]
    rnd = []
    while len(rnd) < n:
        k = rng.choice([2, 2, 3])
        prog = [[rng.choice(ops) for _ in range(rng.choice([1, 1, 2]))] for _ in range(k)]
        rnd.append((rng.choice(inits), prog))
    return fixed, rnd


def explore(ctx, kind, init, program, world, rng, bound, limit, nrandom):
    moving = init.endswith("~")
    locked_clock = init.endswith("@")
    base_init = init.rstrip("~@")
    make = mk_breaker(base_init, world, locked_clock) if kind == "breaker" else mk_budget(base_init, world)
    desc = {"component": kind, "initial_state": init, "program": program}
    try:
        spec = sequential_spec(make, program, world)
    except RuntimeError as x:
        if "self-deadlock" not in str(x):
            raise
        ctx.viol("deadlock", f"single-threaded use already blocks: a thread asked for the component's lock while holding it ({desc})", {"desc": desc, "schedule": []})
        return
    if locked_clock:
        ctx.cnt["breaker_programs_with_a_clock_that_has_its_own_lock"] += 1
    ctx.cnt["sequential_orders_run"] += len(spec)
    progs = [[OPS[o] for o in th] for th in program]
    if moving:
        def tick(b):
            world.t += 0.5
            return ("tick",)

        progs = progs + [[tick, tick, tick]]
    desc = {"component": kind, "initial_state": init, "program": program}
    seen = set()
    outcomes = set()
    contention = 0
    prefix = []
    n = 0
    mode = "dfs"
    rwalks = 0
    deep = sched.Deepening(bound, limit)
    while True:
        r = sched.run_schedule(make, progs, prefix=prefix if mode == "dfs" else (), rng=None if mode == "dfs" else rng)
        s = r["sched"]
        n += 1
        key = tuple(x[1] for x in s.trace)
        seen.add(key)
        ctx.cnt["schedules_run"] += 1
        ctx.cnt["line_events"] += s.line_events
        ctx.cnt["lock_contention_events"] += s.contention
        contention += s.contention
        ctx.cnt["lock_obtained_via:" + r["lock_how"]] += 1
        if not r["completed"] and not s.deadlock:
            ctx.inconclusive_because(f"scheduler watchdog fired for {desc}")
            return
        if s.deadlock:
            ctx.viol("deadlock", f"all unfinished threads blocked: {desc}; schedule {list(key)}", {"desc": desc, "schedule": list(key)})
            return
        if r["errors"]:
            ctx.viol("operation-raised-under-concurrency", f"{r['errors']} in {desc}; schedule {list(key)}", {"desc": desc, "schedule": list(key)})
            return
        res = tuple(tuple(x) for x in (r["results"][:-1] if moving else r["results"]))
        if kind == "breaker" and not moving:
            # the property's own clause, independent of any sequential specification: with the clock standing still the circuit cannot
            # half-open again, so however many failures race, at most ONE of them reports the opening
            opened = sum(1 for th in res for x in th if x[0] == "fail" and x[1] == "circuit_opened")
            ctx.cnt["schedules_checked_for_a_single_opening"] += 1
            if opened > 1:
                ctx.viol("circuit-opened-more-than-once", f"{desc}: {opened} racing failures each reported circuit_opened (results {res}; schedule {list(key)})", {"desc": desc, "schedule": list(key)})
                return
        if moving:
            ctx.cnt["breaker_schedules_with_a_moving_clock"] += 1
        fp = fingerprint(r["obj"], world)
        outcomes.add((res, fp))
        if (res, fp) not in spec:
            k = "non-linearizable:" + kind
            ctx.viol(k, f"{desc}: concurrent results {res} with continuation {fp} equal no sequential ordering (schedule {list(key)}; {len(spec)} sequential outcomes)", {"desc": desc, "schedule": list(key)})
            return
        if mode == "dfs":
            nxt = deep.next(s.trace)
            if nxt is None:
                if deep.exhausted:
                    ctx.cnt["programs_dfs_exhausted_within_bound"] += 1
                mode = "random"
                continue
            prefix = nxt
        else:
            rwalks += 1
            if rwalks >= nrandom:
                break
    ctx.cnt["programs"] += 1
    for k_ in seen:
        ctx.add_hash("schedules", [kind, init, program, list(k_)])
    ctx.mx("max_distinct_outcomes_per_program", len(outcomes))
    ctx.cnt["distinct_outcome_vectors"] += len(outcomes)
    if contention:
        ctx.cnt["programs_with_lock_contention"] += 1
    return len(seen)


# ------------------------------------------------------------------ budget races while the clock moves
# consume()/remaining() read the clock before taking the lock, so under threads a token may be stamped with a reading
# older than the instant it is appended.  What must still hold is the window rule itself, judged with every
# operation's reading known only up to the interval [clock at call, clock at return].
MV_W = 10.0


def moving_programs(rng, n):
    fixed = [
        # a stalled consume() stamps its token with an old reading behind a newer one
        {"max": 2, "threads": [["c1"], ["c1"]], "ticks": [5.0], "after": [[7.0, "rem"], [0.0, "c1"], [0.0, "c1"], [4.0, "rem"]]},
        {"max": 2, "threads": [["c1"], ["c1"]], "ticks": [5.0], "after": [[6.0, "c2"], [0.0, "rem"], [5.0, "c2"]]},
        {"max": 3, "threads": [["c1", "c1"], ["c2"]], "ticks": [4.0, 4.0], "after": [[3.0, "rem"], [3.0, "c1"], [0.0, "rem"], [4.0, "c2"]]},
        {"max": 1, "threads": [["c1"], ["rem"], ["c1"]], "ticks": [10.0], "after": [[0.0, "rem"], [5.0, "c1"], [5.0, "c1"]]},
    ]
    rnd = []
    while len(rnd) < n:
        k = rng.choice([2, 2, 3])
        rnd.append({
            "max": rng.randint(1, 3),
            "threads": [[rng.choice(BUDGET_OPS) for _ in range(rng.choice([1, 1, 2]))] for _ in range(k)],
            "ticks": [rng.choice([1.0, 4.0, 5.0, 6.0, 10.0]) for _ in range(rng.choice([1, 2, 3]))],
            "after": [[rng.choice([0.0, 3.0, 5.0, 6.0, 7.0, 10.0]), rng.choice(BUDGET_OPS)] for _ in range(rng.randint(2, 5))],
        })
    return fixed, rnd


def judge_moving(ops, mx):
    """ops: dicts (name, cost, result, t_call, t_ret, s_call, s_ret) in any order.  Returns a message or None."""
    grants = [o for o in ops if o["name"] != "rem" and o["result"] is True]
    for g in ops:
        before = [h for h in grants if h is not g and h["s_ret"] < g["s_call"]]
        overlap = [h for h in grants if h is not g and not (h["s_ret"] < g["s_call"]) and h["s_call"] < g["s_ret"]]
        certainly = sum(h["cost"] for h in before if h["t_call"] > g["t_ret"] - MV_W)
        possibly = sum(h["cost"] for h in before + overlap if h["t_ret"] >= g["t_call"] - MV_W)
        if g["name"] == "rem":
            lo, hi = max(mx - possibly, 0), max(mx - certainly, 0)
            if not (lo <= g["result"] <= hi):
                return f"remaining() -> {g['result']} during [{g['t_call'] - T0}, {g['t_ret'] - T0}] but between {possibly} and {certainly} token(s) of {mx} were in the window: expected {lo}..{hi}"
        elif g["result"] is True:
            if certainly + g["cost"] > mx:
                return f"consume({g['cost']}) granted during [{g['t_call'] - T0}, {g['t_ret'] - T0}] while {certainly} token(s) of {mx} granted less than {MV_W}s before were certainly still in the window"
        else:
            if possibly + g["cost"] <= mx:
                return f"consume({g['cost']}) refused during [{g['t_call'] - T0}, {g['t_ret'] - T0}] while at most {possibly} token(s) of {mx} could be in the window"
    return None


def explore_moving_once(ctx, prog, world, schedule):
    return explore_moving(ctx, prog, world, None, 0, 1, 0, first_prefix=schedule)


def explore_moving(ctx, prog, world, rng, bound, limit, nrandom, first_prefix=()):
    seq = [0]
    ops = []

    def mk(name):
        cost = {"c1": 1, "c2": 2, "rem": 0}[name]

        def op(b):
            seq[0] += 1
            o = {"name": name, "cost": cost, "t_call": world.t, "s_call": seq[0]}
            o["result"] = b.consume(cost) if cost else b.remaining()
            seq[0] += 1
            o["t_ret"] = world.t
            o["s_ret"] = seq[0]
            ops.append(o)
            return (name, o["result"])

        return op

    def tick(d):
        def op(b):
            world.t += d
            return ("tick", d)

        return op

    def make():
        world.t = T0
        seq[0] = 0
        del ops[:]
        return Budget(max_retries=prog["max"], window_s=MV_W)

    progs = [[mk(o) for o in th] for th in prog["threads"]] + [[tick(d) for d in prog["ticks"]]]
    seen = set()
    prefix = list(first_prefix)
    n = 0
    mode = "dfs"
    rw = 0
    deep = sched.Deepening(bound, limit)
    while True:
        r = sched.run_schedule(make, progs, prefix=prefix if mode == "dfs" else (), rng=None if mode == "dfs" else rng)
        s = r["sched"]
        n += 1
        key = tuple(x[1] for x in s.trace)
        seen.add(key)
        ctx.cnt["schedules_run"] += 1
        ctx.cnt["moving_clock_schedules"] += 1
        ctx.cnt["line_events"] += s.line_events
        ctx.cnt["lock_contention_events"] += s.contention
        payload = {"moving": prog, "schedule": list(key)}
        if not r["completed"] and not s.deadlock:
            ctx.inconclusive_because(f"scheduler watchdog fired for {prog}")
            return
        if s.deadlock:
            ctx.viol("deadlock", f"all unfinished threads blocked: {prog}; schedule {list(key)}", payload)
            return
        if r["errors"]:
            ctx.viol("operation-raised-under-concurrency", f"{r['errors']} in {prog}; schedule {list(key)}", payload)
            return
        # sequential continuation on the same object: the effect of a mis-stamped or lost token shows when it ages out
        b = r["obj"]
        try:
            for d, name in prog["after"]:
                world.t += d
                mk(name)(b)
        except Exception as x:  # noqa: BLE001
            ctx.viol("operation-raised-under-concurrency", f"{x!r} in the sequential continuation of {prog}; schedule {list(key)}", payload)
            return
        if any(o["t_ret"] != o["t_call"] for o in ops):
            ctx.cnt["moving_clock_ops_spanning_a_tick"] += 1
        bad = judge_moving(ops, prog["max"])
        if bad:
            ctx.viol("window-rule-broken-while-clock-moves", f"{bad}; program {prog}; schedule {list(key)}; operations {[(o['name'], o['result'], o['t_call'] - T0, o['t_ret'] - T0) for o in sorted(ops, key=lambda o: o['s_call'])]}", payload)
            return
        if mode == "dfs":
            nxt = deep.next(s.trace)
            if nxt is None:
                mode = "random"
                if nrandom <= 0:
                    break
                continue
            prefix = nxt
        else:
            rw += 1
            if rw >= nrandom:
                break
    ctx.cnt["moving_clock_programs"] += 1
    for k_ in seen:
        ctx.add_hash("schedules", ["moving", prog, list(k_)])


def stress(ctx, world, rng, rounds, nthreads):
    """Second line: free-running real threads, real locks, tiny switch interval; conservation checks."""
    old = sys.getswitchinterval()
    sys.setswitchinterval(1e-6)
    try:
        for r in range(rounds):
            world.t = T0
            # racing probes
            b = CircuitBreaker(failure_threshold=1, window_s=10.0, recovery_timeout_s=5.0)
            b.record_failure(EC.TRANSIENT)
            world.t += 6.0
            res = []
            bar = threading.Barrier(nthreads)

            def probe():
                bar.wait()
                res.append(b.allow().allowed)

            ths = [threading.Thread(target=probe) for _ in range(nthreads)]
            [t.start() for t in ths]
            [t.join() for t in ths]
            ctx.cnt["stress_rounds"] += 1
            if sum(res) != 1:
                ctx.viol("stress:probes-admitted", f"{sum(res)} of {nthreads} racing allow() calls admitted after the timeout", {"stress": "probe", "admitted": sum(res)})
                return
            # racing failures open exactly once
            b = CircuitBreaker(failure_threshold=nthreads, window_s=10.0, recovery_timeout_s=5.0)
            res2 = []
            bar2 = threading.Barrier(nthreads)

            def failer():
                bar2.wait()
                res2.append(b.record_failure(EC.TRANSIENT))

            ths = [threading.Thread(target=failer) for _ in range(nthreads)]
            [t.start() for t in ths]
            [t.join() for t in ths]
            if res2.count("circuit_opened") != 1:
                ctx.viol("stress:opened-count", f"{nthreads} racing failures at threshold {nthreads}: circuit_opened returned {res2.count('circuit_opened')} times", {"stress": "open", "n": res2.count("circuit_opened")})
                return
            # racing consumes never over-grant
            bud = Budget(max_retries=nthreads // 2, window_s=10.0)
            res3 = []
            bar3 = threading.Barrier(nthreads)

            def consumer():
                bar3.wait()
                res3.append(bud.consume(1))

            ths = [threading.Thread(target=consumer) for _ in range(nthreads)]
            [t.start() for t in ths]
            [t.join() for t in ths]
            if sum(res3) != nthreads // 2 or bud.remaining() != 0:
                ctx.viol("stress:over-grant", f"{sum(res3)} grants from a budget of {nthreads // 2}; remaining {bud.remaining()}", {"stress": "budget", "grants": sum(res3)})
                return
    finally:
        sys.setswitchinterval(old)


def work(ctx, tier):
    rng = common.rng_for(ctx, "main")
    world = env.World()
    nprog = max(2, (32 if tier == "quick" else 480) // ctx.nshards)
    bound = 2 if tier == "quick" else 3
    limit = 350 if tier == "quick" else 6000
    nrandom = 60 if tier == "quick" else 600
    with env.active(world):
        for kind in ("breaker", "budget"):
            fixed, rnd = programs_for(kind, rng, nprog if kind == "breaker" else max(nprog // 2, 2))
            # fixed programs are split across shards, random ones differ per shard already
            progs = [fp for i, fp in enumerate(fixed) if i % ctx.nshards == ctx.shard] + rnd
            if tier == "quick":
                progs = [p_ for p_ in progs if p_[0] not in ("aged-9999", "aged-65535")]  # the longest warm-ups run in the thorough tier only
            for i, (init, prog) in enumerate(progs):
                k = explore(ctx, kind, init, prog, world, rng, bound, limit, nrandom)
                if ctx.viol_keys.get("deadlock"):
                    # a component that blocks against itself cannot be driven any further (the real-thread stress would hang)
                    sched.uninstall_monitor()
                    return
                if len(ctx.samples) < 3 and ctx.shard == 0 and k:
                    ctx.sample({"component": kind, "initial_state": init, "program": prog, "distinct_schedules_explored": k})
        fixed, rnd = moving_programs(rng, max(nprog // 4, 1))
        for prog in [fp for i, fp in enumerate(fixed) if i % ctx.nshards == ctx.shard] + rnd:
            explore_moving(ctx, prog, world, rng, bound, limit // 2, nrandom)
        stress(ctx, world, rng, 15 if tier == "quick" else 200, 8)
    sched.uninstall_monitor()


def conclude(ctx):
    floors = {
        "breaker_programs_with_a_clock_that_has_its_own_lock": (ctx.cnt["breaker_programs_with_a_clock_that_has_its_own_lock"], 5),
        "programs": (ctx.cnt["programs"], 20),
        "distinct schedules": (len(ctx.sets["schedules"]), 2000),
        "lock_contention_events": (ctx.cnt["lock_contention_events"], 1000),
        "programs_with_lock_contention": (ctx.cnt["programs_with_lock_contention"], 15),
        "line_events": (ctx.cnt["line_events"], 50000),
        "lock_obtained_via:factory": (ctx.cnt["lock_obtained_via:factory"], 1),
        "stress_rounds": (ctx.cnt["stress_rounds"], 10),
        "moving_clock_schedules": (ctx.cnt["moving_clock_schedules"], 500),
        "moving_clock_ops_spanning_a_tick": (ctx.cnt["moving_clock_ops_spanning_a_tick"], 100),
        "breaker_schedules_with_a_moving_clock": (ctx.cnt["breaker_schedules_with_a_moving_clock"], 300),
    }
    return dict(
        rule=(
            "programs of 2-3 threads x 1-2 operations over {allow, record_success, record_failure(TRANSIENT|SERVER_ERROR), record_cancel, state} resp. {consume(1), consume(2), remaining()} from "
            "initial states {closed, one failure short, open, open-expired, half-open probing, half-open free, stale failure, stale+fresh failures} resp. {empty, two left, one left, full, all tokens expired, expired head + live token}; each program: DFS over schedules with a pre-emption "
            "bound (pre-emption possible before every source line of the component and at every lock operation) followed by seeded random walks; each schedule's (results, observable continuation) is looked up in "
            "the set produced by all sequential order-respecting executions; budget programs are run a second time with a ticker thread advancing the clock in the middle of operations and a sequential "
            "continuation, judged by the window rule over reading intervals; locks the component creates during a run are scheduler-aware too; "
            "distinct_nontrivial = distinct schedules (choice sequences); a schedule counts only if LINE events were delivered"
        ),
        evaluations=ctx.cnt["schedules_run"],
        nontrivial=len(ctx.sets["schedules"]),
        floors=floors,
        assumptions=[
            "pre-emption is injected at source-line granularity (sys.monitoring LINE events inside the redress package) and at lock acquire/release; bytecode-level pre-emption only in the free-running stress",
            "the clock is frozen during a linearizability race (the components read it outside the lock by design); budget races with a moving clock (a ticker thread) are judged by the window rule with every "
            "operation's reading known up to [clock at call, clock at return]; breaker races with a moving clock are explored only from states in which a 1.5 s advance changes no sequential answer",
            "the component is its own sequential specification (C06/C07/C10 tie it to the models)",
            "schedules beyond the pre-emption bound are sampled by random walks only",
        ],
        extra={"preemption_bound": 2 if ctx.tier == "quick" else 3, "deadlocks": 0, "max_distinct_outcomes_per_program": ctx.maxs.get("max_distinct_outcomes_per_program")},
        exhaustive=False,
    )


def replay(data):
    p = data["payload"]
    if "stress" in p:
        print("stress findings are not replayable deterministically; re-run the check")
        return 1
    if "moving" in p:
        import collections

        class C:
            cnt = collections.Counter()
            out = []

            def viol(self, k, m, pl):
                self.out.append((k, m))

            def add_hash(self, *a):
                pass

            def inconclusive_because(self, m):
                self.out.append(("inconclusive", m))

        c = C()
        world = env.World()
        with env.active(world):
            # one schedule: DFS limit 1 and no random walks, starting from the recorded choice sequence
            explore_moving_once(c, p["moving"], world, p["schedule"])
        sched.uninstall_monitor()
        for k, m in c.out:
            print("  !!", k, m)
        print("replay:", "violation reproduced" if c.out else "no violation on this tree")
        return 1 if c.out else 0
    d = p["desc"]
    world = env.World()
    with env.active(world):
        moving = d["initial_state"].endswith("~")
        base_init = d["initial_state"].rstrip("~@")
        make = mk_breaker(base_init, world, d["initial_state"].endswith("@")) if d["component"] == "breaker" else mk_budget(base_init, world)
        try:
            spec = sequential_spec(make, d["program"], world)
        except RuntimeError as x:
            if "self-deadlock" not in str(x):
                raise
            print("single-threaded use:", x)
            print("replay: violation reproduced")
            return 1
        progs = [[OPS[o] for o in th] for th in d["program"]]
        if moving:
            def tick(b):
                world.t += 0.5
                return ("tick",)

            progs = progs + [[tick, tick, tick]]
        r = sched.run_schedule(make, progs, prefix=p["schedule"])
        res = tuple(tuple(x) for x in (r["results"][:-1] if moving else r["results"]))
        bad = r["sched"].deadlock or bool(r["errors"])
        if d["component"] == "breaker" and not moving and sum(1 for th in res for x in th if x[0] == "fail" and x[1] == "circuit_opened") > 1:
            print("more than one racing failure reported circuit_opened")
            bad = True
        fp = None
        if not bad:
            fp = fingerprint(r["obj"], world)
            bad = (res, fp) not in spec
    sched.uninstall_monitor()
    print("program", d, "\nschedule", p["schedule"], "\nresults", res, "continuation", fp, "deadlock", r["sched"].deadlock, "errors", r["errors"])
    print("sequential outcomes:")
    for s_ in sorted(spec, key=repr)[:12]:
        print("   ", s_)
    print("replay:", "violation reproduced" if bad else "no violation on this tree")
    return 1 if bad else 0
