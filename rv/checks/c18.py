"""C18 - built-in backoff strategies are total and stay inside their envelopes.

Postcondition monitors around the callables returned by the REAL factories; the random draw
is the interposed random.uniform, computed exactly like CPython's (a + (b-a)*u) from an
adversarial u (0, 1-2^-53, 1/2, seeded) or forced to the upper endpoint.
"""

from __future__ import annotations

import math
import sys
from fractions import Fraction

from .. import env
from . import common

env.import_redress()

from redress import Classification, ErrorClass  # noqa: E402
from redress.strategies import (  # noqa: E402
    BackoffContext,
    _normalize_strategy,
    adaptive,
    decorrelated_jitter,
    equal_jitter,
    retry_after_or,
    token_backoff,
)

JOBS = {"quick": 4, "thorough": 16}
U_MAX = 1.0 - 2.0**-53
ATTEMPTS = (
    list(range(1, 66))
    + [2**k + d for k in range(7, 65) for d in (-1, 0, 1)]
    + [1000, 1022, 1023, 1024, 1025, 1074, 1075, 1749, 1750, 1751, 1752, 2047, 2048, 4096, 10**4, 10**5, 10**6, 10**9, 10**18, 10**30, 10**100]
)
PREVS = [None, 0.0, 5e-324, 1e-300, 1.0 / 64, 0.25, 1.0, 3.0, 29.0, 30.0, 31.0, 1e3, 1e100, 1e300, 1e308, 1.7976931348623157e308]
PARAMS = [
    (0.25, 30.0),
    (0.25, 20.0),
    (0.0, 0.0),
    (0.0, 1.0),
    (1.0, 1.0),
    (1e-300, 1e-300),
    (1e-300, 1.0),
    (5e-324, 1.0),
    (1e300, 1e300),
    (1.0, 1e300),
    (0.1, 0.3),
    (3.0, 1e6),
    (1e-9, 1e-6),
    (1.0, 1.7976931348623157e308),
    # "no cap": max_s = inf satisfies 0 <= base_s <= max_s
    (0.25, math.inf),
    (1.0, math.inf),
    (0.0, math.inf),
    (2.0, math.inf),
    (30.0, math.inf),
    (1e300, math.inf),
]
K = ErrorClass.TRANSIENT
_ALL_CLASSES = list(ErrorClass)
_rot = [0]


def any_class():
    """The strategies' envelopes hold whatever class the failure has: the class rotates from call to call."""
    _rot[0] += 1
    return _ALL_CLASSES[_rot[0] % len(_ALL_CLASSES)]


FALLBACK_SHAPES = ("ctx-lambda", "legacy", "legacy-method", "ctx-two-knobs", "ctx-one-knob", "object", "method", "partial", "renormalised", "renormalised-rao", "adaptive-object")


def mk_fallback(shape, get):
    """A fallback strategy answering get() in one of the documented signatures: (ctx) with exactly one required positional parameter
    (optional knobs allowed), the legacy (attempt, klass, prev_sleep_s), callable objects, bound methods, partials, and strategies
    handed back by the library itself (the `.fallback` of an existing AdaptiveStrategy, an AdaptiveStrategy, a retry_after_or)."""
    import functools

    if shape == "legacy":
        def legacy(attempt, klass, prev_sleep_s):
            return get()

        return legacy
    if shape == "legacy-method":
        class Table:
            def delay(self, attempt, klass, prev_sleep_s):
                return get()

        return Table().delay
    if shape == "ctx-two-knobs":
        def linear(ctx, step_s=0.5, max_s=4.0):
            assert hasattr(ctx, "attempt"), ctx  # survives -O stripping only as a no-op: the attribute read below decides
            ctx.attempt
            return get()

        return linear
    if shape == "ctx-one-knob":
        def scaled(ctx, scale=1.0):
            ctx.attempt
            return get()

        return scaled
    if shape == "object":
        class Schedule:
            def __call__(self, ctx):
                ctx.attempt
                return get()

        return Schedule()
    if shape == "method":
        class Tuner:
            def delay(self, ctx, floor_s=0.0):
                ctx.attempt
                return get()

        return Tuner().delay
    if shape == "partial":
        def knobbed(ctx, scale):
            ctx.attempt
            return get()

        return functools.partial(knobbed, scale=2.0)
    if shape == "renormalised":
        # derive a variant that shares the fallback of an existing adaptive strategy (a public dataclass field)
        return adaptive(mk_fallback("legacy", get), window_s=5.0).fallback
    if shape == "renormalised-rao":
        return adaptive(mk_fallback("ctx-two-knobs", get), window_s=5.0).fallback
    if shape == "adaptive-object":
        return adaptive(mk_fallback("ctx-lambda", get), window_s=5.0, target_success=1e-9, min_multiplier=1.0, max_multiplier=1.0)
    return lambda c: get()


class Draws:
    def __init__(self, rng, ctx):
        self.rng = rng
        self.mode = "seeded"
        self.ctx = ctx
        self.last = None

    def __call__(self, a, b):
        m = self.mode
        self.ctx.cnt["draw:" + m] += 1
        if m == "upper":
            r = b
        else:
            u = {"zero": 0.0, "umax": U_MAX, "half": 0.5}.get(m)
            if u is None:
                u = self.rng.random()
            r = a + (b - a) * u
        self.last = (a, b, r)
        return r


MODES = ["zero", "umax", "half", "upper", "seeded", "seeded"]


def ref_cap(base, g, attempt, max_s):
    """min(max_s, base * g**attempt) computed exactly (rationals), independent of float pow overflow."""
    if base == 0.0 or max_s == 0.0:
        return 0.0
    lb = math.log2(base) + attempt * math.log2(g)
    if max_s == math.inf and lb > 1025:
        return math.inf  # no cap configured and base * g**attempt is beyond float range: the exact cap has no float
    if lb > math.log2(max_s) + 1:
        return max_s
    exact = Fraction(base) * Fraction(g) ** attempt
    try:
        return min(max_s, float(exact))
    except OverflowError:
        return max_s


def close_le(a, b):
    """a <= b up to relative 1e-9."""
    return a <= b or a - b <= 1e-9 * max(abs(a), abs(b))


def work(ctx, tier):
    rng = common.rng_for(ctx, "main")
    world = env.World()
    draws = Draws(rng, ctx)
    world.draws = draws
    n_iter = (240000 if tier == "quick" else 3000000) // ctx.nshards

    def viol(key, msg, case):
        ctx.viol(key, msg, {"case": case})

    with env.active(world):
        # ---------------------------------------------------------------- jitter strategies
        facts = [("decorrelated_jitter", decorrelated_jitter, None), ("equal_jitter", equal_jitter, 2.0), ("token_backoff", token_backoff, 1.5)]
        built = {}
        for name, fac, g in facts:
            for base, mx in PARAMS:
                f = fac(base_s=base, max_s=mx)
                built[(name, base, mx)] = (f, _normalize_strategy(f), g)
        # ... and each factory called with no arguments at all: the documented defaults (docs/concepts/strategies.md: base_s=0.25 for all
        # three, max_s=30.0 for decorrelated_jitter and equal_jitter, 20.0 for token_backoff) are a parameterisation like any other
        DOCUMENTED_DEFAULTS = {"decorrelated_jitter": (0.25, 30.0), "equal_jitter": (0.25, 30.0), "token_backoff": (0.25, 20.0)}
        for name, fac, g in facts:
            f = fac()
            built[(name,) + DOCUMENTED_DEFAULTS[name]] = (f, _normalize_strategy(f), g)
            ctx.cnt["strategies_built_with_default_parameters"] += 1
        keys = sorted(built)
        # systematic part: every (strategy, params, attempt) x draw mode x a few prevs  (strided over shards)
        idx = 0
        for key in keys:
            name, base, mx = key
            f, fn, g = built[key]
            for attempt in ATTEMPTS:
                for mode in ("zero", "umax", "upper", "half"):
                    idx += 1
                    if idx % ctx.nshards != ctx.shard:
                        continue
                    for prev in (None, 0.0, 1.0, 1e308) if name == "decorrelated_jitter" else (None,):
                        _jitter_case(ctx, viol, draws, name, f, fn, g, base, mx, attempt, prev, mode, idx)
        # random part
        for i in range(n_iter):
            key = keys[rng.randrange(len(keys))]
            name, base, mx = key
            f, fn, g = built[key]
            attempt = rng.choice(ATTEMPTS) if rng.random() < 0.7 else rng.randint(1, 3000)
            prev = rng.choice(PREVS) if rng.random() < 0.6 else rng.uniform(0.0, 100.0)
            _jitter_case(ctx, viol, draws, name, f, fn, g, base, mx, attempt, prev, rng.choice(MODES), i)

        # ---------------------------------------------------------------- retry_after_or
        from decimal import Decimal

        HINTS = [None, math.nan, math.inf, -math.inf, -5.0, -0.0, 0.0, 1e-9, 0.5, 3.0, 120.0, 1e308, 1.7976931348623157e308, 5, 0, 10**18, 10**400,
                 Decimal("2.5"), Fraction(5, 2), True]  # other real-number types an SDK may hand over (judged for totality and the cap)
        JIT = [0.0, 0.25, -1.0, 1e308, 1e-12, 5.0, math.inf]
        REM = [None, 0.0, 1e-9, 0.5, 1.0, 60.0, 1e308]
        FB = [0.0, 1.0, math.nan, math.inf, -math.inf, -3.0, 1e308, 7.5, 10**400, -(10**400), 7]  # incl. ints no float can hold
        idx = 0
        for hint in HINTS:
            for j in JIT:
                for rem in REM:
                    for fb in FB:
                        for mode in ("zero", "umax", "upper"):
                            idx += 1
                            if idx % ctx.nshards != ctx.shard:
                                continue
                            _rao_case(ctx, viol, draws, hint, j, rem, fb, mode)
        for i in range(n_iter // 2):
            hint = rng.choice(HINTS) if rng.random() < 0.6 else rng.uniform(0, 1000)
            j = rng.choice(JIT) if rng.random() < 0.6 else rng.uniform(0, 10)
            rem = rng.choice(REM) if rng.random() < 0.6 else rng.uniform(0, 100)
            fb = rng.choice(FB)
            _rao_case(ctx, viol, draws, hint, j, rem, fb, rng.choice(MODES), shape=FALLBACK_SHAPES[i % len(FALLBACK_SHAPES)] if i % 3 == 0 else "ctx-lambda")

        # ---------------------------------------------------------------- adaptive
        n_hist = (1500 if tier == "quick" else 40000) // ctx.nshards
        for i in range(n_hist):
            _adaptive_history(ctx, viol, world, rng, i)
        for i in range(n_hist):
            _adaptive_decimal_history(ctx, viol, rng, i)
        _adaptive_threads(ctx, viol, tier, rng, world)
        for i in range(12 if tier == "quick" else 200):
            _adaptive_long_history(ctx, viol, world, rng, i)
        _strategy_threads(ctx, viol, tier, rng, draws)


def _jitter_case(ctx, viol, draws, name, f, fn, g, base, mx, attempt, prev, mode, i):
    draws.mode = mode
    draws.last = None
    case = {"strategy": name, "base_s": base, "max_s": mx, "attempt": attempt if attempt < 2**63 else str(attempt), "prev_sleep_s": prev, "draw": mode}
    ctx.cnt["eval:" + name] += 1
    ctx.cnt["evaluations"] += 1
    mag = "<=64" if attempt <= 64 else "<=1023" if attempt <= 1023 else "<=2048" if attempt <= 2048 else "<=2^64" if attempt <= 2**64 else ">2^64"
    ctx.cnt[f"attempt_magnitude:{mag}"] += 1
    try:
        kk = any_class()
        case["class"] = kk.name
        if i & 1:
            r = f(attempt, kk, prev)
        else:
            r = fn(BackoffContext(attempt=attempt, classification=Classification(klass=kk), prev_sleep_s=prev, remaining_s=None, cause="exception"))
    except BaseException as x:  # noqa: BLE001
        over = "overflow-at-large-attempt" if isinstance(x, OverflowError) else "strategy-raised:" + type(x).__name__
        viol(over, f"{name}(base_s={base!r}, max_s={mx!r}) raised {type(x).__name__}: {x} for attempt={attempt}, prev={prev!r}", case)
        return
    case["result"] = r
    case["draw_seen"] = draws.last
    if name != "decorrelated_jitter" and mx == math.inf and isinstance(r, (int, float)) and ref_cap(base, g, attempt, mx) == math.inf:
        # the exact cap exceeds every float: all that can be asked is that the strategy answers (no exception, no NaN) and saturates
        ctx.cnt["uncapped_strategy_beyond_float_range"] += 1
        if r != r or r < sys.float_info.max / 4.0:
            viol(name + "-outside-envelope", f"{name} returned {r!r} although min(max_s, base*g^attempt) exceeds float range for {case}", case)
        return
    if not isinstance(r, (int, float)) or not math.isfinite(r):
        viol("non-finite-delay", f"{name} returned {r!r} for {case}", case)
        return
    if name == "decorrelated_jitter":
        if not (0.0 <= r <= mx):
            viol("decorrelated-outside-envelope", f"decorrelated_jitter returned {r!r} outside [0, {mx!r}] for {case}", case)
        ctx.add_hash("nontrivial", [name, base, mx, attempt if attempt < 2**63 else str(attempt), prev, mode if mode != "seeded" else repr(r)])
        return
    cap = ref_cap(base, g, attempt, mx)
    if not (close_le(cap / 2.0, r) and close_le(r, cap)):
        viol(name + "-outside-envelope", f"{name} returned {r!r} outside [cap/2, cap] = [{cap / 2.0!r}, {cap!r}] for {case}", case)
    if cap > 0:
        ctx.mx("min_margin_to_upper:" + name, -abs(cap - r) / cap)
    ctx.add_hash("nontrivial", [name, base, mx, attempt if attempt < 2**63 else str(attempt), mode if mode != "seeded" else repr(r)])


def _rao_case(ctx, viol, draws, hint, j, rem, fb, mode, shape="ctx-lambda", judge_window=False):
    """`judge_window`: also judge "at least the hint, at most hint + jitter_s, unless the remaining time is smaller" - that sentence is
    C20's, so only C20's check asks for it; C18 itself states: finite, non-negative, no larger than the remaining deadline, never raises."""
    draws.mode = mode
    def shown(x):
        return x if not (isinstance(x, int) and not isinstance(x, bool) and abs(x) > 2**1000) else f"<{'-' if x < 0 else ''}int of {x.bit_length()} bits>"

    case = {"strategy": "retry_after_or", "hint": shown(hint), "jitter_s": j, "remaining_s": rem, "fallback_returns": shown(fb), "draw": mode, "fallback_shape": shape}
    ctx.cnt["eval:retry_after_or"] += 1
    ctx.cnt["evaluations"] += 1
    ctx.cnt["fallback_shape:" + shape] += 1
    try:
        s = retry_after_or(mk_fallback(shape, lambda: fb), jitter_s=j)
        kk = any_class()  # a hint is a hint on whatever class of failure carries it (a 202 being polled, a 409, a 503, a 429)
        case["class"] = kk.name
        r = s(BackoffContext(attempt=1, classification=Classification(klass=kk, retry_after_s=hint), prev_sleep_s=None, remaining_s=rem, cause="exception"))
    except BaseException as x:  # noqa: BLE001
        viol("strategy-raised:" + type(x).__name__, f"retry_after_or raised {type(x).__name__}: {x} for {case}", case)
        return
    case["result"] = r if not (isinstance(r, int) and abs(r) > 2**1000) else f"<int of {r.bit_length()} bits>"
    if isinstance(r, int) and not isinstance(r, bool) and abs(r) > 2**1000:
        # an int beyond float range is still a finite number of seconds (the engine caps it at the remaining time, F13)
        ctx.cnt["rao_results_beyond_float_range"] += 1
        if r < 0 or rem is not None:
            viol("retry-after-or-bad-delay", f"retry_after_or returned {case['result']} for {case}", case)
        return
    if not isinstance(r, (int, float)) or not math.isfinite(r) or r < 0:
        viol("retry-after-or-bad-delay", f"retry_after_or returned {r!r} for {case}", case)
        return
    if rem is not None and r > rem:
        viol("retry-after-or-exceeds-remaining", f"retry_after_or returned {r!r} > remaining {rem!r} for {case}", case)
    huge_hint = isinstance(hint, int) and not isinstance(hint, bool) and abs(hint) > 2**1000
    honoured = hint is not None and isinstance(hint, (int, float)) and not huge_hint and math.isfinite(hint)
    if huge_hint:
        ctx.cnt["rao_hints_beyond_float_range"] += 1  # judged for totality and the remaining-time cap only
    if honoured and not judge_window:
        ctx.cnt["rao_hint_honoured"] += 1
    elif honoured:
        ctx.cnt["rao_hint_honoured"] += 1
        h = max(0.0, float(hint))
        jj = max(0.0, j)
        lo, hi = h, h + jj
        if not math.isfinite(hi):
            # hint + jitter_s leaves float range (an infinite or astronomically large jitter): the window's upper end is unbounded, its
            # lower end is still the hint
            ctx.cnt["rao_hint_with_unbounded_jitter_window"] += 1
            floor_ = lo if rem is None else min(lo, rem)
            if not close_le(floor_, r):
                viol("retry-after-or-outside-hint-window", f"returned {r!r}, expected at least {floor_!r} (hint {lo!r}, jitter_s {j!r}, remaining {rem!r}) for {case}", case)
        elif rem is None or rem >= hi:
            if not (close_le(lo, r) and close_le(r, hi)):
                viol("retry-after-or-outside-hint-window", f"returned {r!r}, expected within [{lo!r}, {hi!r}] for {case}", case)
        else:
            if not (close_le(min(lo, rem), r) and r <= rem):
                viol("retry-after-or-outside-hint-window", f"returned {r!r}, expected within [{min(lo, rem)!r}, {rem!r}] for {case}", case)
    ctx.add_hash("nontrivial", ["rao", repr(hint), j, rem, repr(fb), mode if mode != "seeded" else repr(r)])


def _adaptive_threads(ctx, viol, tier, rng, world):
    """adaptive() keeps shared state (the outcome window) behind a lock and is handed to every call of a policy: small concurrent
    programs of record_success / record_failure / delay computations run under the controlled thread scheduler (pre-emption before
    every source line of the library); no operation may raise and every delay must be one a sequential order could produce."""
    import itertools

    from .. import sched

    ctxo = BackoffContext(attempt=1, classification=Classification(klass=K), prev_sleep_s=None, remaining_s=None, cause="exception")
    OPS = {"S": lambda st: (st.record_success(), "S")[1], "F": lambda st: (st.record_failure(K), "F")[1], "call": lambda st: ("call", st(ctxo))}

    def mk(init):
        def make():
            world.t = 1024.0
            st = adaptive(lambda c: 1.0, window_s=10.0, target_success=0.5, min_multiplier=1.0, max_multiplier=5.0)
            for x in init:
                if x == "adv":
                    world.t += 6.0
                else:
                    OPS[x](st)
            return st

        return make

    progs = [
        ((), [["call"], ["F"]]),
        (("F",), [["call"], ["S"]]),
        (("F", "S"), [["call"], ["F"], ["F"]]),
        (("F", "adv", "S", "adv"), [["call"], ["F"]]),
        (("S", "F", "F"), [["call", "call"], ["S", "F"]]),
        (("F", "adv", "F", "adv"), [["call"], ["call"], ["S"]]),
    ]
    limit = 120 if tier == "quick" else 3000
    nrandom = 30 if tier == "quick" else 400
    for pi, (init, prog) in enumerate(progs):
        if pi % ctx.nshards != ctx.shard:
            continue
        make = mk(init)
        spec = set()
        tags = [i for i, p_ in enumerate(prog) for _ in p_]
        for perm in set(itertools.permutations(tags)):
            st = make()
            res = [[] for _ in prog]
            pos = [0] * len(prog)
            for i in perm:
                res[i].append(OPS[prog[i][pos[i]]](st))
                pos[i] += 1
            spec.add((tuple(tuple(r) for r in res), OPS["call"](st)))
        pr = [[OPS[o] for o in th] for th in prog]
        prefix, n, mode, rw = [], 0, "dfs", 0
        deep = sched.Deepening(2, limit)
        desc = {"adaptive_threads": {"initial": list(init), "program": prog}}
        while True:
            r = sched.run_schedule(make, pr, prefix=prefix if mode == "dfs" else (), rng=None if mode == "dfs" else rng)
            s_ = r["sched"]
            n += 1
            key = [x[1] for x in s_.trace]
            ctx.cnt["adaptive_thread_schedules"] += 1
            ctx.cnt["evaluations"] += 1
            if not r["completed"] and not s_.deadlock:
                ctx.inconclusive_because(f"scheduler watchdog fired for {desc}")
                break
            if s_.deadlock or r["errors"]:
                viol("adaptive-raised-under-concurrency" if r["errors"] else "adaptive-deadlock", f"{r['errors'] or 'all threads blocked'} in {desc}; schedule {key}", dict(desc, schedule=key))
                break
            got = (tuple(tuple(x) for x in r["results"]), OPS["call"](r["obj"]))
            if got not in spec:
                viol("adaptive-non-linearizable", f"{desc}: results {got} equal no sequential ordering ({len(spec)} sequential outcomes); schedule {key}", dict(desc, schedule=key))
                break
            if mode == "dfs":
                nxt = deep.next(s_.trace)
                if nxt is None:
                    mode = "random"
                    continue
                prefix = nxt
            else:
                rw += 1
                if rw >= nrandom:
                    break
        ctx.cnt["adaptive_thread_programs"] += 1
        ctx.cnt["adaptive_thread_lock:" + r["lock_how"]] += 1
    sched.uninstall_monitor()


def _adaptive_long_history(ctx, viol, world, rng, i):
    """Thousands of outcomes inside ONE window (a busy service): any bounded buffer / running counter behind the window must still
    keep the multiplier inside its range."""
    window = rng.choice([60.0, 600.0])
    mn, mxm = rng.choice([(1.0, 5.0), (1.0, 2.0), (1.5, 4.0)])
    target = rng.choice([0.9, 0.5, 0.99])
    st = adaptive(lambda c: 1.0, window_s=window, target_success=target, min_multiplier=mn, max_multiplier=mxm)
    cfgd = {"window_s": window, "target_success": target, "min_multiplier": mn, "max_multiplier": mxm}
    ctxo = BackoffContext(attempt=1, classification=Classification(klass=K), prev_sleep_s=None, remaining_s=None, cause="exception")
    n = rng.choice([1025, 1100, 2049, 3000, 5000])
    p_fail = rng.choice([1.0, 0.9, 0.5])
    seq = []
    try:
        for j in range(n):
            if rng.random() < p_fail:
                st.record_failure(K)
                seq.append("F")
            else:
                st.record_success()
                seq.append("S")
            if j % 97 == 0:
                world.t += 1.0 / 64
            if j > 1000 and j % 131 == 0 or j == n - 1:
                r = st(ctxo)
                ctx.cnt["eval:adaptive"] += 1
                ctx.cnt["eval:adaptive-long-window"] += 1
                ctx.cnt["evaluations"] += 1
                if not isinstance(r, float) or r != r or not (close_le(mn, r) and close_le(r, mxm)):
                    viol("adaptive-outside-multiplier-range", f"adaptive returned {r!r} for fallback 1.0 after {j + 1} outcomes in one window ({seq.count('F')} failures); expected within [{mn}, {mxm}]; {cfgd}",
                         {"cfg": cfgd, "outcomes_in_window": j + 1})
                    return
        # a quiet period, one fresh success: the stale history must be gone
        world.t += window + 1.0
        st.record_success()
        r = st(ctxo)
        if not (close_le(mn, r) and close_le(r, mn)):
            viol("adaptive-outside-multiplier-range", f"adaptive returned {r!r} after the whole history aged out and one success was recorded; expected {mn}; {cfgd}", {"cfg": cfgd, "outcomes_in_window": n})
    except BaseException as x:  # noqa: BLE001
        viol("strategy-raised:" + type(x).__name__, f"adaptive raised {type(x).__name__}: {x} after a long history; {cfgd}", {"cfg": cfgd})


def _strategy_threads(ctx, viol, tier, rng, draws):
    """The jitter strategies and retry_after_or are functions of their context: one strategy object shared by two or three
    threads (e.g. a module-level constant used by every policy) answers each of them as it answers that context alone - whatever
    it caches, and also for whoever asks afterwards."""
    draws.mode = "half"

    def bc(attempt, hint=None, remaining=None, prev=None):
        return BackoffContext(attempt=attempt, classification=Classification(klass=K, retry_after_s=hint), prev_sleep_s=prev, remaining_s=remaining, cause="exception")

    cases = []
    for name, fac in (("equal_jitter", equal_jitter), ("token_backoff", token_backoff), ("decorrelated_jitter", decorrelated_jitter)):
        for _ in range(2 if tier == "quick" else 12):
            a1, a2 = rng.sample(range(1, 9), 2)
            cases.append((f"{name}(base_s=0.25, max_s=30.0) attempts {a1}/{a2}", (lambda fac_: (lambda: _normalize_strategy(fac_(base_s=0.25, max_s=30.0))))(fac), [bc(a1), bc(a2)], [bc(k_) for k_ in range(1, 13)]))
        a = sorted(rng.sample(range(1, 9), 3))
        cases.append((f"{name}(base_s=0.25, max_s=30.0) attempts {a}", (lambda fac_: (lambda: _normalize_strategy(fac_(base_s=0.25, max_s=30.0))))(fac), [bc(x) for x in a], [bc(k_) for k_ in range(1, 13)]))
    for _ in range(2 if tier == "quick" else 12):
        h, rem = rng.choice([2.0, 5.0, 30.0]), rng.choice([0.5, 1.0, 3.0])
        cases.append((f"retry_after_or: hint {h} with 60 s left / no hint with {rem} s left", lambda: retry_after_or(lambda c: 0.125, jitter_s=0.0), [bc(1, hint=h, remaining=60.0), bc(1, remaining=rem)], [bc(2, hint=h, remaining=60.0)]))
    for k, (label, make, calls, after) in enumerate(cases):
        if k % ctx.nshards != ctx.shard:
            continue
        ok = common.function_threads(ctx, viol, label, make, calls, after, limit=60 if tier == "quick" else 600, counter="strategy_thread_schedules")
        ctx.cnt["strategy_thread_cases"] += 1
        if not ok:
            break
    from .. import sched

    sched.uninstall_monitor()
    draws.mode = "seeded"


def _adaptive_decimal_history(ctx, viol, rng, i):
    """adaptive() with an injected clock (public `clock=` parameter) whose readings are ordinary decimal values - tenths of a second
    from 0 - so that an event's age lands on window_s up to float rounding (0.1 -> 5.1 with window 5.0): any two spellings of
    'older than the window' that differ only in rounding must not disagree in a way that makes the strategy raise."""
    window = rng.choice([0.3, 1.0, 2.5, 5.0, 10.0, 60.0])
    target = rng.choice([1.0, 0.9, 0.5, 0.1])
    mn = rng.choice([1.0, 1.5])
    mxm = rng.choice([mn + 1.0, 5.0])
    tenths = [rng.randint(0, 30)]
    st = adaptive(lambda c: 1.0, window_s=window, target_success=target, min_multiplier=mn, max_multiplier=mxm, clock=lambda: tenths[0] / 10)
    cfgd = {"window_s": window, "target_success": target, "min_multiplier": mn, "max_multiplier": mxm, "clock": "tenths of a second"}
    hist = [["t", tenths[0] / 10]]
    w10 = int(round(window * 10))
    ctxo = BackoffContext(attempt=1, classification=Classification(klass=K), prev_sleep_s=None, remaining_s=None, cause="exception")
    for step in range(rng.randint(2, 14)):
        op = rng.random()
        try:
            if op < 0.25:
                st.record_success()
                hist.append("S")
            elif op < 0.5:
                st.record_failure(K)
                hist.append("F")
            elif op < 0.75:
                tenths[0] += rng.choice([0, 1, 2, 3, w10 - 1, w10, w10, w10 + 1, 2 * w10])
                hist.append(["t", tenths[0] / 10])
            else:
                r = st(ctxo)
                ctx.cnt["eval:adaptive"] += 1
                ctx.cnt["eval:adaptive-decimal-clock"] += 1
                ctx.cnt["evaluations"] += 1
                hist.append(["call", r])
                if not isinstance(r, float) or r != r or not (close_le(mn, r) and close_le(r, mxm)):
                    viol("adaptive-outside-multiplier-range", f"adaptive returned {r!r} for fallback 1.0; expected within [{mn}, {mxm}]; {cfgd} history {hist}", {"cfg": cfgd, "history": hist})
                    return
        except BaseException as x:  # noqa: BLE001
            viol("strategy-raised:" + type(x).__name__, f"adaptive raised {type(x).__name__}: {x}; {cfgd} history {hist}", {"cfg": cfgd, "history": hist})
            return
    ctx.add_hash("nontrivial", ["adaptive-decimal", cfgd, hist])


def _adaptive_history(ctx, viol, world, rng, i):
    window = rng.choice([1.0, 10.0, 60.0])
    target = rng.choice([1.0, 0.9, 0.5, 0.1, 1e-9, 0.99, 1e-17, 5e-324, 1e-300, 1.0 - 2.0**-53])
    mn = rng.choice([1.0, 1.0, 1.5, 3.0])
    mxm = rng.choice([mn, mn + 1.0, 5.0 if mn <= 5 else mn, 1e6])
    fbv = [rng.choice([0.0, 1.0 / 64, 0.25, 1.0, 7.0, 1e3, 1e300])]
    shape = FALLBACK_SHAPES[(i // 2) % len(FALLBACK_SHAPES)] if i % 2 else "ctx-lambda"
    cfgd = {"window_s": window, "target_success": target, "min_multiplier": mn, "max_multiplier": mxm, "fallback_shape": shape}
    hist = []
    ctx.cnt["fallback_shape:" + shape] += 1
    # a fallback that builds on the previous delay (decorrelated jitter does): its value is its value FOR THE CONTEXT adaptive() was
    # called with - the engine's prev_sleep_s is the delay applied last time, i.e. adaptive()'s own previous answer
    dep = shape == "ctx-lambda" and i % 3 == 0
    prev_r = [None]
    cfgd["fallback_uses_prev_sleep_s"] = dep
    try:
        if dep:
            st = adaptive(lambda c: fbv[0] + (c.prev_sleep_s or 0.0), window_s=window, target_success=target, min_multiplier=mn, max_multiplier=mxm)
            ctx.cnt["adaptive_histories_with_a_prev_dependent_fallback"] += 1
        else:
            st = adaptive(mk_fallback(shape, lambda: fbv[0]), window_s=window, target_success=target, min_multiplier=mn, max_multiplier=mxm)
    except BaseException as x:  # noqa: BLE001
        viol("strategy-raised:" + type(x).__name__, f"adaptive(<{shape} fallback>) raised {type(x).__name__}: {x}; {cfgd}", {"cfg": cfgd, "history": hist})
        return
    ctxo = BackoffContext(attempt=1, classification=Classification(klass=K), prev_sleep_s=None, remaining_s=None, cause="exception")
    for step in range(rng.randint(1, 40)):
        op = rng.random()
        try:
            if op < 0.3:
                st.record_success()
                hist.append("S")
            elif op < 0.65:
                st.record_failure(K)
                hist.append("F")
            elif op < 0.74:
                # the bounds of a live strategy are re-tuned (AdaptiveStrategy is a public, mutable dataclass): the next answer obeys them
                if rng.random() < 0.5:
                    mxm = rng.choice([mn, mn + 0.5, mn + 1.0, 5.0 if mn <= 5 else mn])
                    st.max_multiplier = mxm
                else:
                    mn = min(rng.choice([1.0, 1.5, 3.0, mxm]), mxm)  # stays a valid parameterisation: min <= max
                    st.min_multiplier = mn
                hist.append(["bounds", mn, mxm])
                ctx.cnt["adaptive_bounds_reassigned_on_a_live_strategy"] += 1
            elif op < 0.8:
                d = rng.choice([0.0, 1.0 / 64, window / 2, window - 1.0 / 64, window, window + 1.0 / 64, 3 * window])
                world.t += d
                hist.append(["adv", d])
            else:
                fbv[0] = rng.choice([0.0, 1.0 / 64, 0.25, 1.0, 7.0, 1e3, 1e300, 10**400]) if not dep else rng.choice([0.0, 1.0 / 64, 0.25, 1.0, 7.0])
                # what the strategy is told about the remaining deadline changes nothing: adaptive() scales, the engine clamps
                rem_told = rng.choice([None, None, 1e-9, 0.5, 3.0, 60.0])
                pv = prev_r[0] if dep and isinstance(prev_r[0], float) and prev_r[0] < 1e6 else None
                ctxo = BackoffContext(attempt=rng.choice([1, 2, 7]) if pv is None else rng.choice([2, 3, 7]), classification=Classification(klass=K), prev_sleep_s=pv, remaining_s=rem_told, cause="exception")
                if rem_told is not None:
                    ctx.cnt["adaptive_calls_with_a_remaining_deadline"] += 1
                r = st(ctxo)
                ctx.cnt["eval:adaptive"] += 1
                ctx.cnt["evaluations"] += 1
                f = fbv[0] + (pv or 0.0) if dep else fbv[0]
                prev_r[0] = r
                if isinstance(f, int) and f > 2**1000:
                    # a fallback value no float can hold: adaptive() answers (the engine caps it), and not with less than the fallback
                    hist.append(["call", "<int beyond float range>", "<int>" if isinstance(r, int) else r])
                    ctx.cnt["adaptive_fallback_values_beyond_float_range"] += 1
                    if not isinstance(r, (int, float)) or r != r or r < f:
                        viol("adaptive-below-fallback", f"adaptive returned {r if not isinstance(r, int) else '<int>'} for a fallback of 10**400; {cfgd}", {"cfg": cfgd, "history": hist})
                    continue
                hist.append(["call", f, r])
                lo, hi = f * mn, f * mxm
                if not (isinstance(r, float) or isinstance(r, int)) or r != r:
                    viol("adaptive-bad-value", f"adaptive returned {r!r}; {cfgd} history {hist[-12:]}", {"cfg": cfgd, "history": hist})
                elif not (close_le(lo, r) and close_le(r, hi)):
                    viol("adaptive-outside-multiplier-range", f"adaptive returned {r!r} for fallback {f!r}; expected within [{lo!r}, {hi!r}]; {cfgd}", {"cfg": cfgd, "history": hist})
                elif f >= 0 and r < f:
                    viol("adaptive-below-fallback", f"adaptive returned {r!r} < fallback {f!r}", {"cfg": cfgd, "history": hist})
                if f > 0 and r == r:
                    m = r / f if f < 1e290 else None
                    if m is not None:
                        ctx.cnt["adaptive_multiplier:" + ("min" if abs(m - mn) < 1e-9 else "max" if abs(m - mxm) < 1e-9 * max(1, mxm) else "between")] += 1
        except BaseException as x:  # noqa: BLE001
            viol("strategy-raised:" + type(x).__name__, f"adaptive raised {type(x).__name__}: {x}; {cfgd} history {hist[-12:]}", {"cfg": cfgd, "history": hist})
            return
    ctx.add_hash("nontrivial", ["adaptive", cfgd, hist])
    if i < 2 and ctx.shard == 0:
        ctx.sample({"adaptive": cfgd, "history": hist})


def conclude(ctx):
    floors = {f"eval:{n}": (ctx.cnt.get(f"eval:{n}", 0), 1000) for n in ("decorrelated_jitter", "equal_jitter", "token_backoff", "retry_after_or", "adaptive")}
    for m in ("<=64", "<=1023", "<=2048", "<=2^64", ">2^64"):
        floors["attempt_magnitude:" + m] = (ctx.cnt.get("attempt_magnitude:" + m, 0), 100)
    for d in ("zero", "umax", "upper", "half", "seeded"):
        floors["draw:" + d] = (ctx.cnt.get("draw:" + d, 0), 100)
    for a in ("min", "max", "between"):
        floors["adaptive_multiplier:" + a] = (ctx.cnt.get("adaptive_multiplier:" + a, 0), 20)
    floors["eval:adaptive-decimal-clock"] = (ctx.cnt["eval:adaptive-decimal-clock"], 500)
    floors["adaptive_thread_schedules"] = (ctx.cnt["adaptive_thread_schedules"], 200)
    floors["eval:adaptive-long-window"] = (ctx.cnt["eval:adaptive-long-window"], 50)
    floors["strategy_thread_schedules"] = (ctx.cnt["strategy_thread_schedules"], 100)
    if not ctx.samples:
        ctx.sample({"strategy": "equal_jitter", "base_s": 0.25, "max_s": 30.0, "attempt": 1024, "draw": "upper"})
    return dict(
        rule=(
            "systematic grid (strategy x 14 parameterisations x ~270 attempt numbers incl. 1023/1024/1751/2^k+-1/1e30 x draw modes) + seeded random cases; "
            "retry_after_or grid over hints x jitter x remaining x fallback garbage x draw; adaptive fed random success/failure/clock histories (dyadic clock; and an injected clock in tenths of a second so that ages land on window_s up to float rounding) "
            "and histories of thousands of outcomes inside one window, and run as small concurrent programs under the controlled thread scheduler; the jitter strategies and retry_after_or are "
            "called by 2-3 threads at once on one shared object and must answer each context as they answer it alone; "
            "one evaluation = one call of a real strategy callable with its postcondition checked; distinct = distinct input tuples (seeded draws distinguished by result)"
        ),
        evaluations=ctx.cnt["evaluations"],
        nontrivial=len(ctx.sets["nontrivial"]),
        floors=floors,
        assumptions=[
            "random draws reach the strategies only through random.uniform (interposed); the draw is computed as CPython does (a+(b-a)*u) from adversarial u, or forced to the upper endpoint",
            "parameters satisfy 0 <= base_s <= max_s; multipliers finite; hints and fallback values are floats or ints (ints beyond float range are judged for totality, sign and the remaining-time cap only); base_s is finite, max_s may be inf",
            "envelope comparisons use relative tolerance 1e-9; the reference cap is computed in the log domain when base*g^attempt would overflow",
        ],
        exhaustive=False,
    )


def replay(data):
    import json

    print(json.dumps(data, indent=1)[:3000])
    case = data["payload"]["case"] if "case" in data["payload"] else None
    if not case or "strategy" not in case:
        print("replay: adaptive histories are printed above; re-run the check to reproduce")
        return 1
    world = env.World()

    class C:
        cnt = __import__("collections").Counter()

    import random as _r

    d = Draws(_r.Random(0), C)
    world.draws = d
    bad = []
    with env.active(world):
        if case["strategy"] == "retry_after_or":
            def nn(v):
                return {"nan": math.nan, "inf": math.inf, "-inf": -math.inf}.get(v, v)
            _rao_case(_Shim(bad), lambda k, m, c: bad.append((k, m)), d, nn(case["hint"]), nn(case["jitter_s"]), nn(case["remaining_s"]), nn(case["fallback_returns"]), case["draw"], shape=case.get("fallback_shape", "ctx-lambda"))
        else:
            fac = {"decorrelated_jitter": decorrelated_jitter, "equal_jitter": equal_jitter, "token_backoff": token_backoff}[case["strategy"]]
            g = {"decorrelated_jitter": None, "equal_jitter": 2.0, "token_backoff": 1.5}[case["strategy"]]
            f = fac(base_s=case["base_s"], max_s=case["max_s"])
            _jitter_case(_Shim(bad), lambda k, m, c: bad.append((k, m)), d, case["strategy"], f, _normalize_strategy(f), g, case["base_s"], case["max_s"], int(case["attempt"]), case["prev_sleep_s"], case["draw"], 1)
    for k, m in bad:
        print("  !!", k, m)
    print("replay:", "violation reproduced" if bad else "no violation on this tree")
    return 1 if bad else 0


class _Shim:
    def __init__(self, bad):
        import collections

        self.cnt = collections.Counter()

    def add_hash(self, *a):
        pass

    def mx(self, *a):
        pass
