"""C19 - built-in classifiers are total and follow the documented table and precedence."""

from __future__ import annotations

import asyncio
import importlib
import math
import socket

from .. import env
from . import common

env.import_redress()

from redress import ErrorClass, default_classifier, strict_classifier  # noqa: E402
from redress.errors import ConcurrencyError, PermanentError, RateLimitError, ServerError  # noqa: E402
from redress.extras import (  # noqa: E402
    aiohttp_classifier,
    boto3_classifier,
    grpc_classifier,
    http_classifier,
    pyodbc_classifier,
    redis_classifier,
    sqlstate_classifier,
    urllib3_classifier,
)

JOBS = {"quick": 4, "thorough": 16}
EC = ErrorClass
TABLE = {401: EC.AUTH, 403: EC.PERMISSION, 400: EC.PERMANENT, 404: EC.PERMANENT, 409: EC.CONCURRENCY, 408: EC.TRANSIENT, 429: EC.RATE_LIMIT}
for _c in range(500, 600):
    TABLE[_c] = EC.SERVER_ERROR
UNDOCUMENTED_INTS = [-500, -1, 0, 1, 99, 100, 200, 204, 301, 399, 402, 405, 410, 418, 423, 428, 430, 499, 600, 601, 999, 1000, 2**31, 2**63, 10**30, -(10**30)]
MARKERS = {PermanentError: EC.PERMANENT, RateLimitError: EC.RATE_LIMIT, ConcurrencyError: EC.CONCURRENCY, ServerError: EC.SERVER_ERROR, TimeoutError: EC.TRANSIENT}
FRAGMENTS = {
    "auth": ["Auth", "AUTH", "auth", "Unauthoriz", "unauthorized", "Credential", "CREDENTIALS"],
    "perm": ["Forbid", "forbidden", "Permission", "PERMISSION"],
    "transient": ["Timeout", "TIMEOUT", "timeout", "Connection", "connection"],
    "neutral": ["Weird", "Foo", "Data", "Thing", "X", "Oops", "Aut", "Permit", "Time_out", "Conn"],
}
SQL = {
    "40001": EC.CONCURRENCY, "40P01": EC.CONCURRENCY, "HYT00": EC.TRANSIENT, "HYT01": EC.TRANSIENT, "08S01": EC.TRANSIENT, "08001": EC.TRANSIENT, "08006": EC.TRANSIENT,
    "28000": EC.AUTH, "28P01": EC.AUTH, "42000": EC.PERMANENT, "42P01": EC.PERMANENT,
}
OPTIONAL = {"aiohttp": ("aiohttp.client_exceptions", aiohttp_classifier), "grpc": ("grpc", grpc_classifier), "boto3": ("botocore.exceptions", boto3_classifier),
            "redis": ("redis.exceptions", redis_classifier), "urllib3": ("urllib3.exceptions", urllib3_classifier)}


def lib_present(mod):
    try:
        importlib.import_module(mod)
        return True
    except Exception:  # noqa: BLE001
        return False


def name_class(name):
    n = name.lower()
    if "auth" in n or "unauthoriz" in n or "credential" in n:
        return EC.AUTH
    if "forbid" in n or "permission" in n:
        return EC.PERMISSION
    if "timeout" in n or "connection" in n:
        return EC.TRANSIENT
    return EC.UNKNOWN


def mk_type(rng, kind):
    """-> (exception type, marker class or None, description)"""
    if kind == "marker":
        base = rng.choice(list(MARKERS))
        if rng.random() < 0.5:
            nm = rng.choice(FRAGMENTS[rng.choice(list(FRAGMENTS))]) + "Sub" + base.__name__
            return type(nm, (base,), {}), MARKERS[base], f"subclass {nm} of {base.__name__}"
        return base, MARKERS[base], base.__name__
    if kind == "multi-marker":
        # a type deriving from two of the library's marker types (in either base order): "first match wins" in the documented order
        # PermanentError, RateLimitError, ConcurrencyError, ServerError
        order = [PermanentError, RateLimitError, ConcurrencyError, ServerError]
        a, b = rng.sample(order, 2)
        nm = rng.choice(["Stale", "Both", "Quota"]) + a.__name__[:4] + b.__name__[:4]
        first = min((a, b), key=order.index)
        return type(nm, (a, b), {}), MARKERS[first], f"{nm}({a.__name__}, {b.__name__})"
    if kind == "timeout-family":
        base = rng.choice([TimeoutError, socket.timeout, asyncio.TimeoutError])
        if rng.random() < 0.4:
            return type("My" + rng.choice(["Deadline", "Auth", "Slow"]) + "Error", (base,), {}), EC.TRANSIENT, f"subclass of {base.__name__}"
        return base, EC.TRANSIENT, base.__name__
    if kind == "builtin":
        t = rng.choice([ValueError, KeyError, OSError, ConnectionError, ConnectionResetError, PermissionError, BrokenPipeError, RuntimeError, LookupError, ArithmeticError, Exception, StopIteration, UnicodeError])
        return t, None, t.__name__
    if kind == "base":
        nm = rng.choice(["Odd", "AuthOdd", "TimeoutOdd"]) + "Base"
        return type(nm, (BaseException,), {}), None, f"BaseException subclass {nm}"
    # dynamic names
    parts = [rng.choice(FRAGMENTS[rng.choice(list(FRAGMENTS))]) for _ in range(rng.randint(1, 3))]
    nm = "".join(parts) + rng.choice(["Error", "Exception", "", "Failure"])
    if rng.random() < 0.3:
        # a class defined INSIDE another class or a function whose name holds a fragment of its own (AuthClient.Error,
        # fetch_with_timeout.<locals>.OddballError): the documented heuristic reads the class name, not where it was defined
        outer = rng.choice(FRAGMENTS[rng.choice(list(FRAGMENTS))]) + rng.choice(["Client", "Pool", "Session"])
        qual = rng.choice([f"{outer}.{nm}", f"{outer.lower()}_call.<locals>.{nm}"])
        return type(nm, (Exception,), {"__qualname__": qual}), None, f"nested {qual}"
    return type(nm, (Exception,), {}), None, f"dynamic {nm}"


def _deep_list(depth):
    x = []
    for _ in range(depth):
        x = [x]
    return x


def attr_values(rng):
    return [
        # built-in containers whose rendering fails: an int beyond the str() digit limit inside, nesting deeper than the recursion limit
        [10**5000], (10**5000,), {"code": 10**5000}, frozenset([10**5000]), [[10**5000]], _deep_list(100000),
    ] + [
        None, True, False, 0, 1, -1, 200, 401, 403, 400, 404, 409, 408, 429, 500, 503, 599, 600, 10**30, -500, 422, 10**5000, -(10**5000), 10**4299, 10**4300,
        0.0, 429.0, 1.5, math.nan, math.inf, -math.inf, "", "429", "abc", "500", b"429", b"", (), (429,), [500], {"a": 1}, {1, 2}, frozenset(), object(), 3 + 4j, range(3), Ellipsis, NotImplemented, ValueError("x"),
    ]


def srepr(v):
    """repr that survives ints beyond the str() digit limit."""
    if type(v) is int and v.bit_length() > 400:
        return f"<int sign={'-' if v < 0 else '+'} bits={v.bit_length()}>"
    try:
        return repr(v)[:40]
    except Exception as x:  # noqa: BLE001
        return f"<unreprable {type(v).__name__}: {type(x).__name__}>"


def is_plain_int(v):
    """An integer status: int or an int subclass that is not bool (http.HTTPStatus members, IntEnum members, an SDK's `class Code(int)`)."""
    return isinstance(v, int) and not isinstance(v, bool)


class SdkCode(int):
    """An SDK-specific integer code type."""


def as_int_subclass(rng, v):
    import enum
    import http

    r = rng.random()
    if r < 0.4:
        try:
            return http.HTTPStatus(v)
        except ValueError:
            pass
    if r < 0.7:
        return enum.IntEnum("VendorStatus", {"CODE": v}).CODE
    return SdkCode(v)


def work(ctx, tier):
    rng = common.rng_for(ctx, "main")
    present = {k: lib_present(m) for k, (m, _) in OPTIONAL.items()}
    for k, p in present.items():
        ctx.cnt[f"optional_library_present:{k}"] += int(p)

    def viol(key, msg, case):
        ctx.viol(key, msg, {"case": case})

    def total(fn, e, case):
        ctx.cnt["classifications"] += 1
        ctx.cnt["calls:" + fn.__name__] += 1
        try:
            r = fn(e)
        except BaseException as x:  # noqa: BLE001
            viol(f"classifier-raised:{fn.__name__}:{type(x).__name__}", f"{fn.__name__} raised {type(x).__name__}: {x} for {case}", case)
            return None
        if not isinstance(r, ErrorClass):
            viol(f"not-an-error-class:{fn.__name__}", f"{fn.__name__} returned {r!r} for {case}", case)
            return None
        return r

    vals = attr_values(rng)
    n = (25000 if tier == "quick" else 1000000) // ctx.nshards
    for i in range(n):
        kind = rng.choice(["marker", "timeout-family", "builtin", "dynamic", "dynamic", "dynamic", "base", "multi-marker"])
        typ, marker, tdesc = mk_type(rng, kind)
        if marker is None and kind == "dynamic" and rng.random() < 0.08:
            # `args` shadowed by a class attribute: whatever built-in value it holds (None, a number, an object, a string, a dict), the
            # classifiers answer (totality only: which answer is right for such an object is pinned nowhere)
            shadow = rng.choice([None, 5, 1.5, True, object(), "40001 deadlock", b"x", {"a": 1}, 429, (), [503]])
            typ = type(typ.__name__, (typ,), {"args": shadow})
            e = typ()
            ctx.cnt["exception_types_with_args_shadowed_by_a_class_attribute"] += 1
            case = {"type": tdesc + " with class attribute args=" + srepr(shadow), "type_name": typ.__name__, "attrs": {}, "args": srepr(shadow)}
            for fn in (default_classifier, strict_classifier, http_classifier, sqlstate_classifier, pyodbc_classifier):
                total(fn, e, case)
            continue
        try:
            e = typ("boom") if rng.random() < 0.5 else typ()
        except Exception:  # noqa: BLE001
            e = typ("boom")
        attrs = {}
        mode = rng.choice(["none", "status", "code", "status_code", "both", "all", "garbage"])
        def pick():
            r = rng.random()
            if r < 0.35:
                v = rng.choice(list(TABLE))
                if rng.random() < 0.25:
                    ctx.cnt["status_given_as_an_int_subclass"] += 1
                    return as_int_subclass(rng, v)
                return v
            if r < 0.55:
                return rng.choice(UNDOCUMENTED_INTS)
            return rng.choice(vals)
        if mode in ("status", "both", "all"):
            attrs["status"] = pick()
        if mode in ("code", "both", "all"):
            attrs["code"] = pick()
        if mode == "both" and rng.random() < 0.3:
            attrs["status"] = rng.choice([0, False, "", 0.0, -0.0, (), [], {}, b"", frozenset()])
            attrs["code"] = rng.choice(list(TABLE))
        if mode in ("status_code", "all"):
            attrs["status_code"] = pick()
        if mode == "garbage":
            for a in rng.sample(["status", "code", "status_code", "sqlstate"], rng.randint(1, 4)):
                attrs[a] = rng.choice(vals)
        if rng.random() < 0.2:
            attrs["sqlstate"] = rng.choice(list(SQL) + ["", None, 0, 40001, "99999", b"40001", ["40001"], "hyt00", "0800", 10**5000, -(10**5000), 10**30, 1.5, math.nan, True, (), object()])
        args = None
        if rng.random() < 0.3:
            args = tuple(rng.choice([429, 503, 404, 99, 600, 1000, True, "x", 5.0, None, "40001", "[HYT00] timeout", "state 08S01 lost", b"x", 10**5000, math.nan, (429,), [503]]) for _ in range(rng.randint(1, 3)))
        settable = True
        for a, v in attrs.items():
            try:
                setattr(e, a, v)
            except Exception:  # noqa: BLE001
                settable = False
        if args is not None:
            try:
                e.args = args
            except Exception:  # noqa: BLE001
                args = None
        if not settable:
            continue
        case = {"type": tdesc, "type_name": type(e).__name__, "attrs": {k: srepr(v) for k, v in attrs.items()}, "args": [srepr(x) for x in e.args] if isinstance(getattr(e, "args", None), (tuple, list)) else srepr(getattr(e, "args", None))}
        ctx.cnt["type_kind:" + kind] += 1
        for a, v in attrs.items():
            ctx.cnt["attr_value_kind:" + type(v).__name__] += 1
        ctx.add_hash("nontrivial", case)
        if i < 3 and ctx.shard == 0:
            ctx.sample(case)

        # ------------------------------------------------------------ default / strict
        rd = total(default_classifier, e, case)
        rs = total(strict_classifier, e, case)
        st, co = attrs.get("status"), attrs.get("code")
        nm = name_class(type(e).__name__)
        if rd is not None and rs is not None:
            if marker is not None:
                ctx.cnt["layer:marker"] += 1
                if rd is not marker or rs is not marker:
                    viol("marker-type-not-honoured", f"{tdesc} must map to {marker.name}; default -> {rd.name}, strict -> {rs.name} for {case}", case)
            else:
                set_st = "status" in attrs and st is not None
                set_co = "code" in attrs and co is not None
                expect = None
                if set_st != set_co:
                    v = st if set_st else co
                    if is_plain_int(v):
                        if v in TABLE:
                            expect = ("table", TABLE[v])
                        elif v != 422:
                            expect = ("names", None)
                    elif not isinstance(v, bool):
                        expect = ("names", None)
                elif not set_st and not set_co:
                    expect = ("names", None)
                elif set_st and set_co and not st and not isinstance(co, bool):
                    # documented as "err.status or err.code": a falsy status (0, False, "", 0.0, empty container) defers to code
                    v = co
                    ctx.cnt["falsy_status_defers_to_code"] += 1
                    if is_plain_int(v):
                        if v in TABLE:
                            expect = ("table", TABLE[v])
                        elif v != 422:
                            expect = ("names", None)
                    else:
                        expect = ("names", None)
                if expect is not None:
                    if expect[0] == "table":
                        ctx.cnt["layer:table"] += 1
                        if rd is not expect[1] or rs is not expect[1]:
                            viol("status-table-violated", f"status/code {v} must map to {expect[1].name}; default -> {rd.name}, strict -> {rs.name} for {case}", case)
                    else:
                        ctx.cnt["layer:names"] += 1
                        if rd is not nm:
                            viol("name-heuristics-violated", f"no documented numeric code; name {type(e).__name__!r} gives {nm.name}; default -> {rd.name} for {case}", case)
                        if rs is not EC.UNKNOWN:
                            viol("strict-used-something-else", f"no marker, no documented numeric code: strict must answer UNKNOWN; got {rs.name} for {case}", case)
                else:
                    ctx.cnt["layer:both-set-or-bool (totality + membership)"] += 1
                    allowed = {nm, EC.UNKNOWN}
                    for v in (st, co):
                        if isinstance(v, int) and v in TABLE:
                            allowed.add(TABLE[v])
                        if v == 422:
                            allowed.add(EC.PERMANENT)
                    if rd not in allowed:
                        viol("default-outside-allowed-set", f"default -> {rd.name}, not in {[a.name for a in allowed]} for {case}", case)
                # metamorphic: strict must not look at the name
                if kind == "dynamic":
                    other = type("Neutral" + str(i % 7) + "Thing", (Exception,), {})
                    e2 = other(*e.args)
                    for a, v in attrs.items():
                        setattr(e2, a, v)
                    r2 = total(strict_classifier, e2, case)
                    ctx.cnt["metamorphic_renames"] += 1
                    if r2 is not None and r2 is not rs:
                        viol("strict-depends-on-name", f"strict_classifier: {type(e).__name__} -> {rs.name} but neutrally named twin -> {r2.name} for {case}", case)

        # ------------------------------------------------------------ http_classifier
        rh = total(http_classifier, e, case)
        if rh is not None:
            three = [attrs.get("status"), attrs.get("status_code"), attrs.get("code")]
            if any(isinstance(v, bool) for v in three):
                ctx.cnt["http:bool-attribute (totality only)"] += 1
            else:
                found = next((v for v in three if is_plain_int(v)), None)
                if found is None:
                    for a in getattr(e, "args", ()):
                        if is_plain_int(a) and 100 <= a <= 599:
                            found = a
                            break
                        if isinstance(a, bool):
                            pass
                if found is None:
                    ctx.cnt["http:no-status -> default"] += 1
                    if rd is not None and rh is not rd:
                        viol("http-fallback-differs-from-default", f"no HTTP status found; http_classifier -> {rh.name}, default_classifier -> {rd.name} for {case}", case)
                elif found in TABLE:
                    ctx.cnt["http:table"] += 1
                    if rh is not TABLE[found]:
                        viol("http-table-violated", f"HTTP status {found} must map to {TABLE[found].name}; got {rh.name} for {case}", case)
                else:
                    # a status the table does not list (302, 418, 600, -1, 10**30): the documented ranges say what IS mapped - nothing outside
                    # them is; the classifier may answer UNKNOWN or whatever default_classifier makes of the same object
                    ctx.cnt["http:undocumented-status"] += 1
                    if rd is not None and rh not in (EC.UNKNOWN, rd):
                        viol("http-undocumented-status-mapped", f"HTTP status {found} is outside the documented table, yet http_classifier -> {rh.name} (default_classifier -> {rd.name}) for {case}", case)

        # ------------------------------------------------------------ sqlstate / pyodbc
        rq = total(sqlstate_classifier, e, case)
        rp = total(pyodbc_classifier, e, case)
        ss = attrs.get("sqlstate")
        if isinstance(ss, str) and ss in SQL:
            ctx.cnt["sql:attribute"] += 1
            if rq is not None and rq is not SQL[ss]:
                viol("sqlstate-table-violated", f"sqlstate {ss} must map to {SQL[ss].name}; sqlstate_classifier -> {rq.name} for {case}", case)
            if rp is not None and rp is not SQL[ss]:
                viol("sqlstate-table-violated", f"sqlstate {ss} must map to {SQL[ss].name}; pyodbc_classifier -> {rp.name} for {case}", case)

        # ------------------------------------------------------------ optional-library classifiers
        for lib, (mod, fn) in OPTIONAL.items():
            r = total(fn, e, case)
            if present[lib]:
                ctx.cnt["optional:library-present-not-exercised"] += 1
                continue
            ctx.cnt["optional:fallback-compared"] += 1
            if r is not None and rd is not None and r is not rd:
                viol(f"optional-fallback-differs:{fn.__name__}", f"{lib} is not importable: {fn.__name__} must equal default_classifier ({rd.name}); got {r.name} for {case}", case)

        # ------------------------------------------------------------ the error that happened to be in flight is not part of the table
        if i % 3 == 0 and rd is not None and rs is not None and rh is not None:
            carrier = type(rng.choice(["HTTPError", "UpstreamError", "AuthError"]), (Exception,), {})("in flight")
            setattr(carrier, rng.choice(["status", "code"]), rng.choice(list(TABLE)))
            how = rng.choice(["context", "cause", "context-suppressed"])
            try:
                e.__context__ = carrier
                if how == "cause":
                    e.__cause__ = carrier
                elif how == "context-suppressed":
                    e.__suppress_context__ = True  # what `raise X from None` inside an except block leaves behind
            except Exception:  # noqa: BLE001 - exotic objects that refuse the attribute
                carrier = None
            if carrier is not None:
                case2 = dict(case, raised_while_handling=f"{type(carrier).__name__}({ {k_: v_ for k_, v_ in vars(carrier).items()} })", chained_by=how)
                ctx.cnt["raised_while_handling_another_error"] += 1
                for fn, r0 in ((default_classifier, rd), (strict_classifier, rs), (http_classifier, rh), (sqlstate_classifier, rq)):
                    r1 = total(fn, e, case2)
                    if r1 is not None and r0 is not None and r1 is not r0:
                        viol("class-depends-on-the-error-in-flight", f"{fn.__name__}: {type(e).__name__} alone -> {r0.name}; the same error raised while a {type(carrier).__name__} with {vars(carrier)} was being handled ({how}) -> {r1.name}", case2)
                        break
                try:
                    e.__cause__ = None
                    e.__context__ = None
                    e.__suppress_context__ = False
                except Exception:  # noqa: BLE001
                    pass

    # ---------------------------------------------------------------- dedicated SQLSTATE forms
    for code, want in SQL.items():
        for j in range(40 if tier == "quick" else 400):
            if (j + hash(code)) % ctx.nshards != ctx.shard:
                continue
            form = j % 3
            typ = type(rng.choice(["Db", "Odbc", "Driver", "Operational"]) + "Error", (Exception,), {})
            if form == 0:
                e = typ("failed")
                e.sqlstate = code
                fns = (sqlstate_classifier, pyodbc_classifier)
            elif form == 1:
                e = typ(code, f"[{code}] [microsoft][odbc driver] something failed ({j})")
                fns = (sqlstate_classifier, pyodbc_classifier)
            else:
                e = typ(f"query failed with state {code} after {j} ms")
                fns = (sqlstate_classifier,)
            case = {"type": type(e).__name__, "sqlstate_form": ["attribute", "bracket", "free text"][form], "code": code, "args": repr(e.args)[:80]}
            ctx.cnt["sql:" + case["sqlstate_form"]] += 1
            for fn in fns:
                r = total(fn, e, case)
                if r is not None and r is not want:
                    viol("sqlstate-table-violated", f"SQLSTATE {code} ({case['sqlstate_form']}) must map to {want.name}; {fn.__name__} -> {r.name}", case)
    # ---------------------------------------------------------------- every documented integer, every neutral/named type, default+strict+http
    for v in list(TABLE) + UNDOCUMENTED_INTS:
        for attr in ("status", "code", "status_code"):
            for nm_ in ("PlainError", "AuthError", "TimeoutThing", "ForbiddenError"):
                if hash((v, attr, nm_)) % ctx.nshards != ctx.shard:
                    continue
                # where the attribute lives rotates: on the instance, on the class (`class NotFound(ApiError): status_code = 404`), or
                # behind a read-only property forwarding to a response object
                how = ("instance", "class", "property")[hash((v, attr, nm_, "how")) % 3]
                if how == "instance":
                    e = type(nm_, (Exception,), {})("x")
                    setattr(e, attr, v)
                elif how == "class":
                    e = type(nm_, (Exception,), {attr: v})("x")
                else:
                    e = type(nm_, (Exception,), {attr: property(lambda self, _v=v: _v)})("x")
                ctx.cnt["systematic:attribute-on-" + how] += 1
                case = {"type": nm_, "attrs": {attr: repr(v)}, "attribute_lives_on": how, "systematic": True}
                rd, rs, rh = total(default_classifier, e, case), total(strict_classifier, e, case), total(http_classifier, e, case)
                ctx.cnt["systematic_table_cases"] += 1
                if v in TABLE:
                    if attr != "status_code":
                        if rd is not TABLE[v] or rs is not TABLE[v]:
                            viol("status-table-violated", f"{attr}={v} on {nm_}: default -> {rd and rd.name}, strict -> {rs and rs.name}, expected {TABLE[v].name}", case)
                    if rh is not TABLE[v]:
                        viol("http-table-violated", f"{attr}={v} on {nm_}: http -> {rh and rh.name}, expected {TABLE[v].name}", case)
                elif v != 422 and attr != "status_code":
                    if rd is not name_class(nm_):
                        viol("undocumented-code-not-ignored", f"{attr}={v} is not a documented code; default must fall back to names ({name_class(nm_).name}); got {rd and rd.name}", case)
                    if rs is not EC.UNKNOWN:
                        viol("undocumented-code-not-ignored", f"{attr}={v} is not a documented code; strict must answer UNKNOWN; got {rs and rs.name}", case)


    classifier_threads(ctx, viol, tier, rng)


def classifier_threads(ctx, viol, tier, rng):
    """The classifiers are functions of their argument: two threads classifying different errors at once (pre-emption before every
    source line of the library, controlled scheduler) each get the answer they get alone, and so does everyone asking afterwards.
    Before every schedule the classifier's module (and redress.classify behind it) is re-imported, so the race also covers whatever a
    module builds lazily on its first use in a process."""
    import importlib
    import sys

    from .. import sched

    MODS = {"default_classifier": "redress.classify", "strict_classifier": "redress.classify", "http_classifier": "redress.extras.http",
            "sqlstate_classifier": "redress.extras.sqlstate", "pyodbc_classifier": "redress.extras.pyodbc"}

    def fresh(fname):
        importlib.reload(sys.modules["redress.classify"])
        m = sys.modules[MODS[fname]]
        if MODS[fname] != "redress.classify":
            m = importlib.reload(m)
        return getattr(sys.modules[MODS[fname]], fname)

    def sql_exc(code, form, j):
        typ = type(["Db", "Odbc", "Driver"][j % 3] + "Error", (Exception,), {})
        if form == 0:
            e = typ("failed")
            e.sqlstate = code
            return e
        if form == 1:
            return typ(code, f"[{code}] [microsoft][odbc driver] something failed ({j})")
        return typ(f"query failed with state {code} after {j} ms")

    def named(nm_, attr=None, v=None):
        e = type(nm_, (Exception,), {})("x")
        if attr:
            setattr(e, attr, v)
        return e

    codes = sorted(SQL)
    pairs = []
    for j in range(6 if tier == "quick" else 60):
        a_, b_ = rng.sample(codes, 2)
        f = rng.choice([1, 1, 2])
        pairs.append(("sqlstate_classifier", sql_exc(a_, f, j), sql_exc(b_, f, j + 1)))
        pairs.append(("pyodbc_classifier", sql_exc(a_, 1, j), sql_exc(b_, 1, j + 1)))
    for j in range(16 if tier == "quick" else 120):
        na, nb = rng.sample(["AuthError", "TimeoutThing", "ForbiddenError", "PlainError", "RateLimitExceeded", "ConflictError"], 2)
        fname = ["http_classifier", "default_classifier", "strict_classifier", "http_classifier"][j % 4]
        # documented statuses on both sides: an answer from a half-built table shows as UNKNOWN
        sa, sb = rng.sample([s_ for s_ in TABLE if isinstance(s_, int)], 2)
        pairs.append((fname, named(na, "status", sa), named(nb, rng.choice(["status", "code"]), sb)))
    limit = 160 if tier == "quick" else 600
    for pi, (fname, ea, eb) in enumerate(pairs):
        if pi % ctx.nshards != ctx.shard:
            continue
        try:
            want = (fresh(fname)(ea), fresh(fname)(eb))
        except BaseException as x:  # noqa: BLE001
            viol("classifier-raised:" + type(x).__name__, f"{fname} raised {x!r}", {"threads": fname})
            continue
        case = {"classifier": fname, "a": f"{type(ea).__name__}{ea.args!r} {vars(ea)}"[:110], "b": f"{type(eb).__name__}{eb.args!r} {vars(eb)}"[:110]}
        holder = {}

        def make():
            holder["fn"] = fresh(fname)
            return holder["fn"]

        progs = [[lambda f_: f_(ea)], [lambda f_: f_(eb)]]
        prefix, n = [], 0
        deep = sched.Deepening(2, limit)
        while True:
            r = sched.run_schedule(make, progs, prefix=prefix)
            s_ = r["sched"]
            n += 1
            key = [x[1] for x in s_.trace]
            ctx.cnt["classifier_thread_schedules"] += 1
            ctx.cnt["classifier_thread_line_events"] += s_.line_events
            if not r["completed"]:
                ctx.inconclusive_because(f"scheduler watchdog fired for {case}")
                break
            got = (r["results"][0][0] if r["results"][0] else None, r["results"][1][0] if r["results"][1] else None)
            later = None
            if not r["errors"]:
                later = (holder["fn"](ea), holder["fn"](eb))
            if r["errors"] or got != want or later != want:
                viol("classifier-answer-depends-on-another-thread", f"{fname}: alone -> {[w.name for w in want]}; two threads at once (first use of the module in the process) -> {[g and g.name for g in got]}, "
                     f"asked again afterwards -> {later and [g.name for g in later]}; errors {r['errors']}; {case}; schedule {key}", dict(case, schedule=key))
                break
            nxt = deep.next(s_.trace)
            if nxt is None:
                break
            prefix = nxt
        ctx.cnt["classifier_thread_pairs"] += 1
    sched.uninstall_monitor()


def conclude(ctx):
    floors = {
        "layer:marker": (ctx.cnt["layer:marker"], 500),
        "layer:table": (ctx.cnt["layer:table"], 500),
        "layer:names": (ctx.cnt["layer:names"], 500),
        "metamorphic_renames": (ctx.cnt["metamorphic_renames"], 500),
        "http:table": (ctx.cnt["http:table"], 500),
        "http:undocumented-status": (ctx.cnt["http:undocumented-status"], 300),
        "http:no-status -> default": (ctx.cnt["http:no-status -> default"], 300),
        "sql:attribute": (ctx.cnt["sql:attribute"], 100),
        "sql:bracket": (ctx.cnt["sql:bracket"], 50),
        "sql:free text": (ctx.cnt["sql:free text"], 50),
        "systematic_table_cases": (ctx.cnt["systematic_table_cases"], 500),
        "falsy_status_defers_to_code": (ctx.cnt["falsy_status_defers_to_code"], 200),
        "raised_while_handling_another_error": (ctx.cnt["raised_while_handling_another_error"], 500),
        "classifier_thread_schedules": (ctx.cnt["classifier_thread_schedules"], 200),
        "classifier_thread_line_events": (ctx.cnt["classifier_thread_line_events"], 1000),
    }
    absent = [k for k in OPTIONAL if not ctx.cnt.get(f"optional_library_present:{k}")]
    if absent:
        floors["optional:fallback-compared"] = (ctx.cnt["optional:fallback-compared"], 1000)
    return dict(
        rule=(
            "generated exception objects: marker types and subclasses, TimeoutError family, builtins, BaseException subclasses, dynamically created classes whose names combine "
            "{auth, unauthoriz, credential, forbid, permission, timeout, connection, neutral} fragments in mixed case; status/status_code/code/sqlstate/args hold ints (table, neighbours, huge, negative), bools, "
            "floats incl. NaN/inf, str, bytes, containers, objects; every one of the 10 classifiers is called on every object; systematic pass over every documented integer x attribute x type name and every "
            "documented SQLSTATE x {attribute, bracket, free text}; pairs of errors classified by two threads at once under the controlled scheduler (pre-emption before every source line) and asked again afterwards; "
            "one evaluation = one classifier call; distinct = distinct (type, attributes, args) cases"
        ),
        evaluations=ctx.cnt["classifications"],
        nontrivial=len(ctx.sets["nontrivial"]),
        floors=floors,
        assumptions=[
            "bools are ints in Python: for bool-valued status/code only totality is asserted",
            "when both status and code are set and status is truthy only totality and membership in {table(status), table(code), name-based, UNKNOWN} are asserted; a falsy status defers to code (the documentation says 'err.status or err.code')",
            "422 is documented by default_classifier's docstring but not by the property: not asserted either way",
            "optional libraries (aiohttp, grpc, botocore, redis, urllib3) are not installed here: only the documented fallback to default_classifier is exercised; absent: " + ", ".join(absent),
        ],
        extra={"optional_libraries_absent": absent},
        exhaustive=False,
    )


def replay(data):
    import json

    print(json.dumps(data, indent=1)[:2500])
    print("replay: cases are generated deterministically per seed; re-run `./check C19 --tier quick --seed", data.get("seed"), "`")
    return 1
