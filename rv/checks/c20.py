"""C20 - Retry-After hints are parsed safely and honoured exactly.

Totality / hint monitors on the real http_retry_after_classifier and _parse_retry_after, plus
end-to-end policy runs (real Retry + retry_after_or on the virtual clock) checking the delay
handed to the sleeper against hint, jitter and remaining time.
"""

from __future__ import annotations

import datetime as dt
import math
from collections.abc import Mapping
from email.utils import format_datetime

from .. import env
from . import common

env.import_redress()

from redress import AsyncRetry, Classification, ErrorClass, Retry, default_classifier  # noqa: E402
from redress.errors import RateLimitError  # noqa: E402
from redress.extras.http import _parse_retry_after, http_retry_after_classifier  # noqa: E402
from redress.strategies import retry_after_or  # noqa: E402

JOBS = {"quick": 4, "thorough": 16}
FLOAT_MAX_INT = int(1.7976931348623157e308)
CASINGS = ["Retry-After", "retry-after", "RETRY-AFTER", "rEtRy-AfTeR"]
DATE_TOL = 1.5


class Http429(Exception):
    def __init__(self, status=429):
        super().__init__("rate limited")
        self.status = status


class Http429b(Http429):
    """the status under `status_code`"""

    def __init__(self, status=429):
        Exception.__init__(self, "rate limited")
        self.status_code = status


class Http429c(Http429):
    """the status under `code`"""

    def __init__(self, status=429):
        Exception.__init__(self, "rate limited")
        self.code = status


class TypedRateLimit(RateLimitError, Http429):
    """RATE_LIMIT by marker type only: an SDK's typed error without any numeric status"""

    def __init__(self, status=429):
        Exception.__init__(self, "rate limited")


CARRIERS = [Http429, Http429, Http429b, Http429c, TypedRateLimit]


class MapSub(Mapping):
    def __init__(self, d):
        self.d = d

    def __getitem__(self, k):
        return self.d[k]

    def __iter__(self):
        return iter(self.d)

    def __len__(self):
        return len(self.d)


class GetOnly:
    def __init__(self, d):
        self.d = d

    def get(self, k, default=None):
        return self.d.get(k, default)


class GetItems(GetOnly):
    def items(self):
        return self.d.items()


class PairsIterable:
    """Raw (name, value) pairs behind nothing but __iter__ (a multidict's items view, a header list wrapper)."""

    def __init__(self, pairs):
        self.pairs = pairs

    def __iter__(self):
        return iter(self.pairs)


class RaisingIter:
    """A header stream that fails when walked (the connection is gone)."""

    def __iter__(self):
        raise RuntimeError("stream closed")


class IndexOnly:
    """A wrapper that only supports indexing by header name: iterating it asks for item 0 and gets KeyError."""

    def __getitem__(self, k):
        raise KeyError(k)


class RaisingGet:
    def get(self, k, default=None):
        raise RuntimeError("headers unavailable")


class Resp:
    def __init__(self, headers):
        self.headers = headers


class FalsyResp(Resp):
    """Like requests.Response: falsy for every error status (bool(response) is response.ok)."""

    def __bool__(self):
        return False


class EmptyLenResp(Resp):
    """A response object with a length of zero (e.g. an empty body) is falsy too."""

    def __len__(self):
        return 0


RESP_KINDS = [Resp, Resp, FalsyResp, EmptyLenResp]


def mk_exc(value, shape, casing, where, status=429):
    """Build an exception carrying `value` as its Retry-After in the given container shape."""
    # how the failure comes to be RATE_LIMIT rotates with the case: status / status_code / code = 429, or a typed error without a status
    e = (CARRIERS[(len(casing) + len(shape) + len(where) + len(type(value).__name__) + (len(value) if isinstance(value, str) else 0)) % len(CARRIERS)] if status == 429 else Http429)(status)
    if where == "attr":
        e.retry_after = value
        return e, "attr"
    key = casing
    if shape == "dict":
        h = {key: value}
    elif shape == "dict+noise":
        h = {"Content-Type": "x", key: value, "X-Other": 5}
    elif shape == "dict+date":
        # what a real response carries next to Retry-After: the server's own Date (from a cache or a skewed clock: not "now")
        h = {"Date": "Wed, 21 Oct 2015 07:28:00 GMT", "Content-Type": "x", key: value, "Content-Length": "0"}
    elif shape == "pairs+date":
        h = [("date", "Wed, 21 Oct 2015 07:28:00 GMT"), (key, value), ("Date", "Thu, 01 Jan 2099 00:00:00 GMT")]
    elif shape == "mapsub":
        h = MapSub({key: value})
    elif shape == "getonly":
        h = GetOnly({key: value})
    elif shape == "getitems":
        h = GetItems({key: value})
    elif shape == "pairs":
        h = [("Content-Type", "x"), (key, value)]
    elif shape == "nonpairs":
        h = [key, value, 5]
    elif shape == "raisingget":
        h = RaisingGet()
    elif shape == "tuplepairs":
        h = ((key, value),)
    elif shape == "itemsview":
        h = {"Content-Type": "x", key: value}.items()  # pairs, iterable any number of times, but not a Sequence
    elif shape == "iterable":
        h = PairsIterable([("Content-Type", "x"), (key, value)])
    elif shape == "raisingiter":
        h = RaisingIter()
    elif shape == "keyerrorseq":
        h = IndexOnly()
    elif shape == "setpairs":
        try:
            h = frozenset([("Content-Type", "x"), (key, value)])
        except TypeError:  # unhashable value
            h = PairsIterable([(key, value)])
    else:
        raise KeyError(shape)
    if where == "headers":
        e.headers = h
    else:
        e.response = RESP_KINDS[(len(casing) + len(shape) + len(str(type(value)))) % len(RESP_KINDS)](h)
        if (len(casing) + len(shape)) % 3 == 0:
            # SDK errors that copy the headers they were given (`self.headers = dict(headers or {})`) and were given none: an EMPTY table of
            # their own next to the response that carries the hint
            e.headers = {} if len(shape) % 2 else ()
    # can the lookup be expected to find the value?
    if shape in ("dict", "dict+noise", "dict+date", "pairs+date", "mapsub", "getitems", "pairs", "tuplepairs", "itemsview", "iterable", "setpairs"):
        found = "yes"
    elif shape == "getonly":
        found = "yes" if casing in ("Retry-After", "retry-after") else "maybe"
    else:
        found = "no"
    return e, found


SHAPES = ["dict", "dict+noise", "dict+date", "pairs+date", "mapsub", "getonly", "getitems", "pairs", "tuplepairs", "nonpairs", "raisingget", "itemsview", "iterable", "setpairs", "raisingiter", "keyerrorseq"]


def classify_value(v):
    """Return (kind, expectation) for a header value.
    kind: 'int' (expect exact float), 'garbage' (expect no hint), 'date' handled separately, 'any' (safety only)."""
    if isinstance(v, bool):
        return "any", None
    if isinstance(v, int):
        if 0 <= v <= FLOAT_MAX_INT:
            return "int", float(v)
        return "any", None
    if isinstance(v, str):
        core = v.strip(" \t")
        if core and core.isascii() and core.isdigit():
            if len(core) <= 4300 and int(core) <= FLOAT_MAX_INT:
                return "int", float(int(core))
            return "any", None
        if v and not any(ch.isdigit() or ch.isnumeric() or ch.isdecimal() for ch in v):
            return "garbage", None
        if not v.strip():
            return "garbage", None
    return "any", None


def short(v):
    """Printable, JSON-safe description of a header value (ints beyond the str() digit limit included)."""
    if isinstance(v, bool) or v is None:
        return v
    if isinstance(v, int):
        if v.bit_length() > 200:
            return f"<int sign={'-' if v < 0 else '+'} bits={v.bit_length()}>"
        return v
    if isinstance(v, str):
        if len(v) > 80:
            return f"{v[:24]!r}...(len {len(v)}, digits_only={v.strip(' ').lstrip('+-').isdigit()})"
        return v
    if isinstance(v, float):
        return v
    return repr(v)[:80]


def hint_of(r):
    if isinstance(r, Classification):
        return r.retry_after_s, r.klass
    return None, r


def work(ctx, tier):
    rng = common.rng_for(ctx, "main")

    def viol(key, msg, case):
        ctx.viol(key, msg, {"case": case})

    def check_value(v, shape, casing, where, tag, date_instant=None):
        e, found = mk_exc(v, shape, casing, where)
        case = {"value": short(v), "type": type(v).__name__, "shape": shape, "casing": casing, "where": where, "tag": tag}
        ctx.cnt["classifier_calls"] += 1
        ctx.cnt["kind:" + tag] += 1
        ctx.cnt["shape:" + shape + "/" + where] += 1
        try:
            r = http_retry_after_classifier(e)
        except BaseException as x:  # noqa: BLE001
            key = "classifier-raised:" + type(x).__name__
            viol(key, f"http_retry_after_classifier raised {type(x).__name__}: {str(x)[:120]} for {case}", case)
            return
        hint, klass = hint_of(r)
        if not isinstance(klass, ErrorClass):
            viol("not-an-error-class", f"returned {r!r} for {case}", case)
            return
        if hint is not None:
            if isinstance(hint, bool) or not isinstance(hint, float) or hint != hint or hint < 0:
                viol("bad-hint", f"hint {hint!r} is not a non-negative float for {case}", case)
                return
        ctx.add_hash("nontrivial", [str(short(v)), v[:64] + v[-64:] if isinstance(v, str) else "", shape, casing, where])
        kind, want = classify_value(v)
        if where == "attr" and isinstance(v, str):
            found = "yes"
        elif where == "attr" and isinstance(v, (int, float)) and not isinstance(v, bool):
            # numeric attribute: documented as seconds
            if isinstance(v, int) and 0 <= v <= FLOAT_MAX_INT:
                if hint != float(v):
                    viol("numeric-attribute-not-honoured", f"retry_after={v!r} gave hint {hint!r}", case)
                ctx.cnt["definite:int"] += 1
            return
        if date_instant is not None and found == "yes":
            now = dt.datetime.now(dt.UTC)
            want_d = max(0.0, (date_instant - now).total_seconds())
            ctx.cnt["definite:date"] += 1
            if hint is None or abs(hint - want_d) > DATE_TOL:
                viol("date-hint-wrong", f"HTTP-date {v!r} gave hint {hint!r}, expected about {want_d!r}", case)
            return
        if kind == "int" and found == "yes":
            ctx.cnt["definite:int"] += 1
            if hint != want:
                viol("integer-hint-wrong", f"decimal integer gave hint {hint!r}, expected {want!r} for {case}", case)
        elif kind == "garbage":
            ctx.cnt["definite:garbage"] += 1
            if hint is not None:
                viol("garbage-gave-hint", f"garbage {v!r} gave hint {hint!r}", case)

    # ------------------------------------------------------------------ value pools
    lens = list(range(1, 40)) + list(range(300, 320)) + [1000, 2000, 4000] + list(range(4295, 4306)) + [5000, 10000]
    digit_strings = []
    for n in lens:
        digit_strings.append("9" * n)
        digit_strings.append("1" + "0" * (n - 1))
        digit_strings.append("".join(rng.choice("0123456789") for _ in range(n)))
        digit_strings.append("0" * n)
    digit_strings += ["17976931348623157" + "0" * 292, "17976931348623158" + "0" * 292, "17976931348623159" + "0" * 292, "1" + "0" * 308, "0" * 400 + "7"]
    wrappers = ["{}", " {}", "{} ", "  {}\t", "\t{}", "{}\n", "\n{}", " {}", "+{}", "-{}", "- {}", "{}.0", "{}e0", "0x{}", "{}_0", "{}s", "{};", "{},1", " {} ", "{}\x00", "٣{}"]
    odd_strings = ["", " ", "\t", "\n", "abc", "soon", "never", "NaN", "nan", "inf", "-inf", "Infinity", "1.5", ".5", "1e3", "1e400", "0x10", "1_000", "１２", "١٢٣", "²", "½", "Ⅻ", "--5", "+-5", "5-", "٠",
                   "Mon", "GMT", ",", ";;;", "\x00", "\ud800", "é" * 50, "🙂", "None", "True", "b'12'", "[1]", "{}", "() ", "retry-after: 5", "١٢٣ GMT"]
    now = dt.datetime.now(dt.UTC)

    def fixdate(d):
        return format_datetime(d, usegmt=True)

    date_cases = []
    for off in [-10**7, -86400, -3600, -1, 0, 30, 120, 3600, 86400, 10**6, 10**8]:
        d = (now + dt.timedelta(seconds=off)).replace(microsecond=0)
        date_cases.append((fixdate(d), d))
        # zone-less and "-0000" forms denote UTC (RFC 5322 / email.utils): the hint must not depend on the process time zone
        date_cases.append((d.strftime("%a, %d %b %Y %H:%M:%S"), d))
        date_cases.append((d.strftime("%a, %d %b %Y %H:%M:%S -0000"), d))
        date_cases.append((d.astimezone(dt.timezone(dt.timedelta(hours=5, minutes=30))).strftime("%a, %d %b %Y %H:%M:%S +0530"), d))
    odd_dates = [
        "Wed, 21 Oct 2015 07:28:00",  # naive
        "Wed, 21 Oct 2015 07:28:00 +0200",
        "Wed, 21 Oct 2015 07:28:00 -2359",
        "Wed, 21 Oct 2015 07:28:00 +9999",
        "Wed, 21 Oct 2015 07:28:00 +99999999999999999999",
        "Wed, 21 Oct 99999999999999999999 07:28:00 GMT",
        "99999999999999999999 Oct 2015 07:28:00 GMT",
        "Wed, 21 Oct 2015 99999999999999999999:28:00 GMT",
        "Wed, 21 Oct 2015 07:99999999999999999999:00 GMT",
        "Wed, 21 Oct 2015 07:28:99999999999999999999 GMT",
        "Wed, 32 Oct 2015 07:28:00 GMT",
        "Wed, 21 Foo 2015 07:28:00 GMT",
        "Wed, 21 Oct 0000 07:28:00 GMT",
        "Wed, 21 Oct 10000 07:28:00 GMT",
        "Wed, 21 Oct 9999 23:59:59 -2359",
        "Mon, 01 Jan 0001 00:00:00 +2359",
        "21 Oct 2015 07:28 GMT",
        "Wednesday, 21-Oct-15 07:28:00 GMT",
        "Wed Oct 21 07:28:00 2015",
        "Wed, 21 Oct 2015 25:61:61 GMT",
        "Wed, 21 Oct 2015 07:28:00 " + "9" * 400,
        "9" * 400 + " Oct 2015 07:28:00 GMT",
        "Wed, 21 Oct " + "9" * 5000 + " 07:28:00 GMT",
        "Wed, -1 Oct 2015 07:28:00 GMT",
        "1 Jan 70 00:00:00 GMT",
        "1 Jan 1 1:1:1 -0000",
    ]
    non_strings = [None, True, False, 0, 5, 120, -5, 2**63, 10**308, 10**309, 10**400, -(10**400), 10**5000, 0.0, 1.5, -1.5, -0.0, math.nan, math.inf, -math.inf, 1e308,
                   b"120", b"", bytearray(b"5"), (5,), [5], {"a": 1}, {5}, object(), 3 + 4j, "5"]

    # ------------------------------------------------------------------ systematic part (strided over shards)
    idx = [0]

    def mine():
        idx[0] += 1
        return idx[0] % ctx.nshards == ctx.shard

    for s in digit_strings:
        for w in wrappers:
            v = w.format(s)
            if not mine():
                continue
            shape = SHAPES[idx[0] % len(SHAPES)]
            casing = CASINGS[idx[0] % 4]
            where = ("headers", "response", "attr")[idx[0] % 3]
            check_value(v, shape, casing, where, "digits" if w.strip() == "{}" else "digits-decorated")
    for v in odd_strings:
        for shape in SHAPES:
            for casing in CASINGS:
                for where in ("headers", "response"):
                    if mine():
                        check_value(v, shape, casing, where, "odd-string")
        if mine():
            check_value(v, "dict", "Retry-After", "attr", "odd-string")
    import os as _os
    import time as _time

    tz_before = _os.environ.get("TZ")
    try:
        for tz in ("UTC0", "XST-9", "XST5", "XST-5:30"):
            # the process time zone must not influence how a date is read (POSIX TZ strings: no tz database needed)
            _os.environ["TZ"] = tz
            _time.tzset()
            ctx.cnt["timezone:" + tz] += 1
            for v, d in date_cases:
                for shape in SHAPES:
                    for casing in CASINGS:
                        for where in ("headers", "response"):
                            if mine():
                                check_value(v, shape, casing, where, "http-date", date_instant=d)
                if mine():
                    check_value(v, "dict", "Retry-After", "attr", "http-date", date_instant=d)
    finally:
        if tz_before is None:
            _os.environ.pop("TZ", None)
        else:
            _os.environ["TZ"] = tz_before
        _time.tzset()
    for v in odd_dates:
        for shape in ("dict", "pairs", "getonly"):
            for where in ("headers", "response", "attr"):
                if mine():
                    check_value(v, shape, "Retry-After", where, "odd-date")
    for v in non_strings:
        for shape in SHAPES:
            for where in ("headers", "response", "attr"):
                if mine():
                    check_value(v, shape, CASINGS[idx[0] % 4], where, "non-string")
    # direct parser calls
    for v in digit_strings + odd_strings + odd_dates + [d[0] for d in date_cases]:
        if not mine():
            continue
        ctx.cnt["parser_calls"] += 1
        try:
            r = _parse_retry_after(v)
        except BaseException as x:  # noqa: BLE001
            viol("parser-raised:" + type(x).__name__, f"_parse_retry_after raised {type(x).__name__} for value of length {len(v)}: {v[:60]!r}", {"value": v[:200], "len": len(v), "tag": "parser"})
            continue
        if r is not None and (not isinstance(r, float) or r != r or r < 0):
            viol("bad-hint", f"_parse_retry_after({v[:60]!r}) = {r!r}", {"value": v[:200], "len": len(v), "tag": "parser"})

    # ------------------------------------------------------------------ random part
    n = (60000 if tier == "quick" else 1000000) // ctx.nshards
    alphabet = "0123456789 +-.,:;eExX_abcGMTWedOctJan\t\n ٣９é🙂\x00"
    for i in range(n):
        r = rng.random()
        if r < 0.3:
            L = rng.choice([1, 2, 3, 5, 10, 20, 100, 307, 308, 309, 310, 400, 4299, 4300, 4301])
            v = "".join(rng.choice("0123456789") for _ in range(L))
            if rng.random() < 0.3:
                v = rng.choice(wrappers).format(v)
            tag = "digits-random"
        elif r < 0.55:
            v = "".join(rng.choice(alphabet) for _ in range(rng.randint(0, 30)))
            tag = "garbage-random"
        elif r < 0.8:
            off = rng.choice([-1, 1]) * rng.choice([1, 10, 100, 1000, 10**5, 10**7]) * rng.random()
            d = (now + dt.timedelta(seconds=off)).replace(microsecond=0)
            shape, casing, where = rng.choice(SHAPES), rng.choice(CASINGS), rng.choice(["headers", "response", "attr"])
            check_value(fixdate(d), shape, casing, where, "imf-fixdate", date_instant=d)
            continue
        else:
            v = rng.choice(non_strings)
            tag = "non-string"
        check_value(v, rng.choice(SHAPES), rng.choice(CASINGS), rng.choice(["headers", "response", "attr"]), tag)

    # ------------------------------------------------------------------ the same HTTP-date seen again later
    # a date hint is "the time until that date" at the moment of asking: asking again later must give less
    repeat = [(v, d) for v, d in date_cases if (d - now).total_seconds() > 20][:6]

    # ------------------------------------------------------------------ two carriers at once: a useless attribute next to a valid header
    # SDKs copy a vendor field verbatim into `retry_after` (or default it to ""); when that attribute says nothing usable, the server's
    # own Retry-After header is the only hint there is
    for i in range((300 if tier == "quick" else 6000) // ctx.nshards):
        useless = rng.choice(["", " ", "soon", "1.5", "None", "n/a", "\t", "--"])
        secs = rng.choice([0, 1, 7, 120, 86400])
        shape = rng.choice(SHAPES)
        casing, where = rng.choice(CASINGS), rng.choice(["headers", "response"])
        e, found_ = mk_exc(str(secs), shape, casing, where)
        if found_ != "yes":
            continue  # a container the lookup cannot be expected to read
        e.retry_after = useless
        case = {"retry_after_attribute": useless, "header_value": str(secs), "shape": shape, "casing": casing, "where": where, "tag": "useless-attribute+valid-header"}
        ctx.cnt["classifier_calls"] += 1
        ctx.cnt["useless_attribute_next_to_a_valid_header"] += 1
        try:
            hint, klass = hint_of(http_retry_after_classifier(e))
        except BaseException as x:  # noqa: BLE001
            viol("classifier-raised:" + type(x).__name__, f"http_retry_after_classifier raised {type(x).__name__}: {str(x)[:120]} for {case}", case)
            continue
        if hint != float(secs):
            viol("integer-hint-wrong", f"the attribute {useless!r} carries no hint, the header says {secs}; hint {hint!r} for {case}", case)

    # ------------------------------------------------------------------ HTTP-dates while the wall clock moves between two reads
    stepping_clock_dates(ctx, viol, rng, 400 if tier == "quick" else 8000)

    # ------------------------------------------------------------------ one retry_after_or object shared by threads
    shared_strategy_threads(ctx, viol, rng, tier)

    # ------------------------------------------------------------------ the strategy asked directly: the hint window over value grids
    direct_hint_window(ctx, viol, rng, tier)

    # ------------------------------------------------------------------ end to end
    n2 = (10000 if tier == "quick" else 160000) // ctx.nshards
    for i in range(n2):
        _end_to_end(ctx, viol, rng, i)
    for v, d in repeat:
        check_value(v, "dict", "Retry-After", "headers", "http-date-first", date_instant=d)
    env._REAL["sleep"](2.6)  # real time must pass (datetime.now() cannot be interposed); nothing else is parsed meanwhile
    for v, d in repeat:
        check_value(v, "dict", "Retry-After", "headers", "http-date-again-later", date_instant=d)
    if ctx.shard == 0:
        ctx.sample({"value": "9" * 20 + "...(len 309)", "shape": "dict", "where": "headers", "expect": "no raise; hint None or non-negative float"})
        ctx.sample({"value": date_cases[5][0], "shape": "pairs", "casing": "RETRY-AFTER", "expect": "hint ~ 30 s"})


def direct_hint_window(ctx, viol, rng, tier):
    """retry_after_or called directly (no policy around it) over grids of hints, jitter_s (negative, zero, huge, infinite), remaining
    times and adversarial draws: at least the hint, at most hint + jitter_s, unless the remaining time is smaller.  (The function
    under test and the draw model are those of C18's check, which itself does not judge this sentence.)"""
    from . import c18

    world = env.World()
    draws = c18.Draws(rng, ctx)
    world.draws = draws
    HINTS = [0.0, 1e-9, 0.5, 3.0, 120.0, 1e308, 1.7976931348623157e308, 5, 0, 10**18, -0.0, -5.0]
    JIT = [0.0, 0.25, -1.0, 1e308, 1e-12, 5.0, math.inf]
    REM = [None, 0.0, 1e-9, 0.5, 1.0, 60.0, 1e308]
    idx = 0
    with env.active(world):
        for hint in HINTS:
            for j in JIT:
                for rem in REM:
                    for mode in ("zero", "umax", "upper", "half"):
                        idx += 1
                        if idx % ctx.nshards != ctx.shard:
                            continue
                        c18._rao_case(ctx, viol, draws, hint, j, rem, 0.125, mode, judge_window=True)
                        ctx.cnt["direct_hint_window_cases"] += 1
        for i in range((4000 if tier == "quick" else 100000) // ctx.nshards):
            hint = rng.choice(HINTS) if rng.random() < 0.5 else rng.uniform(0, 1000)
            j = rng.choice(JIT) if rng.random() < 0.6 else rng.uniform(0, 10)
            rem = rng.choice(REM) if rng.random() < 0.6 else rng.uniform(0, 100)
            c18._rao_case(ctx, viol, draws, hint, j, rem, rng.choice([0.0, 0.125, 7.5]), rng.choice(c18.MODES), shape=c18.FALLBACK_SHAPES[i % len(c18.FALLBACK_SHAPES)] if i % 3 == 0 else "ctx-lambda", judge_window=True)
            ctx.cnt["direct_hint_window_cases"] += 1


def shared_strategy_threads(ctx, viol, rng, tier):
    """retry_after_or(...) is usually built once and handed to every policy: two threads asking it at the same time (one with a hint
    and plenty of deadline left, one without a hint and almost none) each get what they get alone (controlled scheduler,
    pre-emption before every source line of the library)."""
    from redress.strategies import BackoffContext
    from redress import Classification

    from .. import sched

    def bc(hint, remaining, attempt=1):
        return BackoffContext(attempt=attempt, classification=Classification(klass=ErrorClass.RATE_LIMIT, retry_after_s=hint), prev_sleep_s=None, remaining_s=remaining, cause="exception")

    def v2(key, msg, case):
        viol("hint-" + key, msg, case)

    world = env.World()
    world.draws = lambda a, b: a  # no jitter: the answers are exact
    k = 0
    with env.active(world):
        for hint in (2.0, 5.0, 30.0, 0.0):
            for rem_other in (0.25, 0.5, 3.0):
                for jit in (0.0, 0.25):
                    k += 1
                    if k % ctx.nshards != ctx.shard or (tier == "quick" and k % 3):
                        continue
                    label = f"retry_after_or(fallback 0.125, jitter_s={jit}): Retry-After {hint} with 60 s left | no hint with {rem_other} s left"
                    ok = common.function_threads(ctx, v2, label, lambda j_=jit: retry_after_or(lambda c: 0.125, jitter_s=j_), [bc(hint, 60.0), bc(None, rem_other)], [bc(hint, 60.0, 2)],
                                                 limit=40 if tier == "quick" else 400, counter="shared_strategy_thread_schedules")
                    if not ok:
                        sched.uninstall_monitor()
                        return
    sched.uninstall_monitor()


def stepping_clock_dates(ctx, viol, rng, n):
    """The hint for an HTTP-date is 'the time until that date': however many times the parser looks at the clock, the hint lies between
    the remaining time at its first and at its last reading and is never negative - also when the date falls between two readings.
    The parser module's own `datetime` name is replaced by a subclass whose now() advances on every reading."""
    import redress.extras.http as H

    reads = []
    state = {"t": None, "step": 0.0}

    class SteppingDatetime(dt.datetime):
        @classmethod
        def now(cls, tz=None):
            cur = state["t"]
            reads.append(cur)
            state["t"] = cur + dt.timedelta(seconds=state["step"])
            return cur if tz is None or cur.tzinfo is not None else cur.replace(tzinfo=tz)

    orig = getattr(H, "datetime", None)
    how = None
    if isinstance(orig, type) and issubclass(orig, dt.datetime):
        H.datetime = SteppingDatetime
        how = "class"
    elif getattr(orig, "__name__", None) == "datetime" and hasattr(orig, "datetime"):
        class _Mod:  # `import datetime` style: a stand-in module object
            def __getattr__(self, k):
                return SteppingDatetime if k == "datetime" else getattr(orig, k)

        H.datetime = _Mod()
        how = "module"
    if how is None:
        ctx.cnt["stepping_clock_not_installable"] += 1
        return
    try:
        base = dt.datetime(2031, 5, 6, 7, 8, 9, tzinfo=dt.UTC)
        for i in range(n):
            step = rng.choice([0.0, 0.25, 0.5, 1.0, 5.0])
            off = rng.choice([-5.0, -1.0, -0.5, 0.0, 0.25, 0.5, 0.75, 1.0, 1.5, 2.0, 4.0, 9.0, 30.0])
            start = base + dt.timedelta(seconds=rng.randint(0, 10**6), microseconds=rng.choice([0, 0, 250000, 500000]))
            date = (start + dt.timedelta(seconds=off)).replace(microsecond=0)
            v = format_datetime(date, usegmt=True)
            state["t"], state["step"] = start, step
            del reads[:]
            shape, casing, where = rng.choice(SHAPES), rng.choice(CASINGS), rng.choice(["headers", "response", "attr"])
            e, found = mk_exc(v, shape, casing, where)
            case = {"value": v, "clock_start": start.isoformat(), "clock_step_per_reading": step, "shape": shape, "where": where, "tag": "http-date-stepping-clock"}
            ctx.cnt["classifier_calls"] += 1
            try:
                r = http_retry_after_classifier(e)
            except BaseException as x:  # noqa: BLE001
                viol("classifier-raised:" + type(x).__name__, f"http_retry_after_classifier raised {type(x).__name__}: {str(x)[:120]} for {case}", case)
                continue
            hint, klass = hint_of(r)
            if found != "yes" and where != "attr":
                continue
            if not reads:
                ctx.cnt["stepping_clock_not_read"] += 1
                continue
            ctx.cnt["stepping_clock_dates"] += 1
            if len(reads) > 1:
                ctx.cnt["stepping_clock_dates_read_more_than_once"] += 1
            hi = max(0.0, (date - reads[0]).total_seconds())
            lo = max(0.0, (date - reads[-1]).total_seconds())
            if reads[0] < date <= reads[-1] + dt.timedelta(seconds=step):
                ctx.cnt["stepping_clock_date_between_two_readings"] += 1
            case["clock_readings"] = [x.isoformat() for x in reads[:4]]
            if hint is None or hint < 0 or hint != hint or not (lo - 1e-6 <= hint <= hi + 1e-6):
                viol("date-hint-wrong-under-moving-clock", f"HTTP-date {v!r} with the clock at {reads[0].isoformat()} (+{step}s per reading, {len(reads)} reading(s)) gave hint {hint!r}; expected {lo}..{hi}", case)
    finally:
        H.datetime = orig


def _end_to_end(ctx, viol, rng, i):
    hint = rng.choice([0, 1, 2, 5, 30, 120, 3600, 90000]) if rng.random() < 0.7 else rng.randint(0, 500)
    j = rng.choice([0.0, 0.25, 1.0, 5.0, -1.0])
    deadline = rng.choice([1.0, 4.0, 10.0, 60.0, 200.0, 1000.0, 86430.0, 172845.0, 604805.0])  # incl. longer than a day
    dur = rng.choice([0.0, 0.25, 1.0])
    mode = rng.choice(["zero", "umax", "upper", "half", "seeded"])
    is_async = bool(i & 1)
    world = env.World()
    u = rng.random()

    def draws(a, b):
        if mode == "upper":
            return b
        uu = {"zero": 0.0, "umax": 1.0 - 2.0**-53, "half": 0.5}.get(mode, u)
        return a + (b - a) * uu

    world.draws = draws
    sleeps = []
    n_op = [0]
    shape, casing, where = rng.choice(["dict", "mapsub", "pairs", "getitems"]), rng.choice(CASINGS), rng.choice(["headers", "response", "attr"])

    # table shape: the hint-aware strategy as the default, or registered for RATE_LIMIT only next to a different default; the
    # failures before the 429 may be of another class (a 503 without Retry-After): the hint belongs to the 429 only
    table = rng.choice(["default", "default", "rate-limit-only"])
    first = rng.choice(["429", "429", "503", "503-503"]) if table == "rate-limit-only" else "429"
    script = {"429": [429, 429], "503": [503, 429], "503-503": [503, 503, 429]}[first]
    kinds = []

    def op_body():
        n_op[0] += 1
        world.t += dur
        if n_op[0] > len(script):
            return "done"
        st = script[n_op[0] - 1]
        kinds.append(st)
        if st == 503:
            e = Http429(503)  # no Retry-After at all
        else:
            e, _ = mk_exc(str(hint), shape, casing, where)
        raise e

    case = {"hint": hint, "jitter_s": j, "deadline_s": deadline, "attempt_duration": dur, "draw": mode, "async": is_async, "shape": shape, "where": where, "strategy_table": table, "failures": script}
    strat = retry_after_or(lambda c: 0.125, jitter_s=j)
    skw = dict(strategy=strat) if table == "default" else dict(strategy=lambda c: 0.015625, strategies={ErrorClass.RATE_LIMIT: strat})
    # a per-attempt timeout may be configured as well (it never fires here: the attempts take no real time); sync runs only - the
    # async runs of this slice are stepped by hand, without an event loop for wait_for
    at = rng.choice([None, None, None, 30.0, 600.0])
    late = rng.random() < 0.25  # the classifier is assigned on the live policy after construction (`policy.classifier = ...`)
    case = dict(case, attempt_timeout_s=None if is_async else at, classifier_assigned_later=late)

    def build(cls):
        kw = dict(deadline_s=deadline, max_attempts=5, **skw)
        if not is_async and at is not None:
            kw["attempt_timeout_s"] = at
        if late:
            pol = cls(classifier=default_classifier, **kw)
            pol.classifier = http_retry_after_classifier
            return pol
        return cls(classifier=http_retry_after_classifier, **kw)

    with env.active(world):
        t0 = world.t
        try:
            if is_async:
                async def aop():
                    return op_body()

                async def asl(s):
                    sleeps.append((s, world.t - t0))
                    world.t += s

                r = build(AsyncRetry)
                co = r.call(aop, sleeper=asl)
                try:
                    co.send(None)
                    raise AssertionError("unexpected suspension")
                except StopIteration:
                    pass
            elif i % 5 == 2:
                # no sleeper of the caller's: the library's default blocking sleep (time.sleep, interposed) is what waits out the hint
                dtrace = []
                world.trace, world.call_t0 = dtrace, t0
                try:
                    build(Retry).call(op_body)
                finally:
                    world.trace = None
                    sleeps.extend((e_[1], e_[2]) for e_ in dtrace if e_[0] == "dsleep")
                    ctx.cnt["end_to_end_runs_on_the_default_sleeper"] += 1
            else:
                def sl(s):
                    sleeps.append((s, world.t - t0))
                    world.t += s

                build(Retry).call(op_body, sleeper=sl)
        except Http429:
            pass
        except BaseException as x:  # noqa: BLE001
            viol("end-to-end-raised:" + type(x).__name__, f"policy run raised {type(x).__name__}: {x} for {case}", case)
            return
    ctx.cnt["end_to_end_runs"] += 1
    jj = max(0.0, j)
    for k_, (d, t) in enumerate(sleeps):
        ctx.cnt["end_to_end_sleeps"] += 1
        remaining = deadline - t
        case2 = dict(case, delay=d, elapsed=t, remaining=remaining)
        if k_ < len(kinds) and kinds[k_] == 503:
            # no hint on this failure: the other class's own strategy applies
            ctx.cnt["e2e:other-class-before-the-429"] += 1
            want = min(0.015625, max(remaining, 0.0))
            if abs(d - want) > 1e-6:
                viol("delay-after-hintless-failure-wrong", f"sleeper got {d!r} after a 503 without Retry-After; its own strategy says 0.015625 (remaining {remaining!r})", case2)
            continue
        if first != "429":
            ctx.cnt["e2e:429-after-another-class"] += 1
        lo, hi = float(hint), float(hint) + jj
        if remaining >= hi + 1e-6:
            ctx.cnt["e2e:within-deadline"] += 1
            if not (lo - 1e-9 <= d <= hi + 1e-9):
                viol("delay-outside-hint-window", f"sleeper got {d!r}; hint {hint} jitter {j} => expected [{lo}, {hi}] (remaining {remaining!r})", case2)
        else:
            ctx.cnt["e2e:deadline-capped"] += 1
            if not (min(lo, remaining) - 1e-6 <= d <= remaining + 1e-6):
                viol("delay-outside-capped-window", f"sleeper got {d!r}; hint {hint} jitter {j}, remaining {remaining!r} => expected [{min(lo, remaining)!r}, {remaining!r}]", case2)
    ctx.add_hash("nontrivial", ["e2e", hint, j, deadline, dur, mode, is_async, shape, where, casing])


def conclude(ctx):
    floors = {
        "definite:int": (ctx.cnt["definite:int"], 500),
        "definite:date": (ctx.cnt["definite:date"], 200),
        "definite:garbage": (ctx.cnt["definite:garbage"], 200),
        "end_to_end_sleeps": (ctx.cnt["end_to_end_sleeps"], 500),
        "e2e:within-deadline": (ctx.cnt["e2e:within-deadline"], 100),
        "e2e:deadline-capped": (ctx.cnt["e2e:deadline-capped"], 100),
        "kind:non-string": (ctx.cnt["kind:non-string"], 200),
        "kind:odd-date": (ctx.cnt["kind:odd-date"], 50),
        "timezone:XST-9": (ctx.cnt["timezone:XST-9"], 1),
        "timezone:XST5": (ctx.cnt["timezone:XST5"], 1),
        "kind:http-date-again-later": (ctx.cnt["kind:http-date-again-later"], 4),
        "e2e:429-after-another-class": (ctx.cnt["e2e:429-after-another-class"], 100),
        "e2e:other-class-before-the-429": (ctx.cnt["e2e:other-class-before-the-429"], 100),
    }
    floors["shared_strategy_thread_schedules"] = (ctx.cnt["shared_strategy_thread_schedules"], 100)
    if not ctx.cnt["stepping_clock_not_installable"]:
        floors["stepping_clock_dates"] = (ctx.cnt["stepping_clock_dates"], 200)
    return dict(
        rule=(
            "systematic pools (digit strings of length 1..10000 dense around 308/309/4300/4301 x 21 decorations; odd strings; IMF-fixdates around now; "
            "malformed/huge dates; non-string values) x 9 container shapes x 4 key casings x {exc.headers, exc.response.headers, exc.retry_after} + seeded random values; "
            "one evaluation = one call of the real classifier/parser; distinct = distinct (value, container, casing, location); end-to-end = real Retry/AsyncRetry runs with retry_after_or as the default strategy or registered for RATE_LIMIT only "
            "next to another default, 429s preceded by hint-less 503s; HTTP-dates are parsed again with the parser module's `datetime` replaced by a clock that advances on every reading; one retry_after_or object is asked by two threads at once "
            "(controlled scheduler) and must answer each as it answers it alone"
        ),
        evaluations=ctx.cnt["classifier_calls"] + ctx.cnt["parser_calls"] + ctx.cnt["end_to_end_runs"],
        nontrivial=len(ctx.sets["nontrivial"]),
        floors=floors,
        assumptions=[
            "three definite input classes get exact expectations (ASCII decimal integers within float range, IMF-fixdates, digit-free garbage); everything else gets safety only (no raise; hint None or a non-negative float)",
            f"dates are compared with datetime.now() within {DATE_TOL} s (datetime.now is a C slot and cannot be interposed process-wide); only the stepping-clock slice controls the parser's clock, by replacing the name `datetime` in redress.extras.http "
            "(when the module binds it in another way the slice is skipped and counted as stepping_clock_not_installable)",
            "header lookups are expected to succeed for Mapping, get+items and pair-list containers in any key casing, and for get-only containers in canonical/lower casing; response objects may be falsy (requests.Response is, for a 429)",
            "HTTP-dates without a zone or with -0000 denote UTC; date cases are repeated under four process time zones (POSIX TZ strings)",
        ],
        exhaustive=False,
    )


def replay(data):
    import json

    print(json.dumps(data, indent=1)[:2500])
    print("replay: re-run `./check C20 --tier quick` (pools are deterministic); the case above names value/shape/location")
    return 1
