"""Helpers shared by the trace-based checks."""

from __future__ import annotations

import random

from .. import gen, rig
from ..view import View

ASSUME_COMMON = [
    "redress is imported from $VERIF_REPO/src (default /repo): the current working tree, not a copy",
    "time, sleep and randomness reach the library only through time.monotonic/time.time/time.sleep/asyncio.sleep/random.uniform, all interposed before import; datetime.now() is not interposable",
    "instants within 1 microsecond of the deadline are don't-care (the engine compares timedeltas)",
    "a verdict covers the executions observed (counts below), nothing more",
]


def rng_for(ctx, stream):
    return random.Random(f"{ctx.prop}/{ctx.seed}/{ctx.shard}/{stream}")


def pick_entries(rng, pool, k):
    if k >= len(pool):
        return list(pool)
    return rng.sample(pool, k)


def payload(sc, entry, call=None, **extra):
    d = {"scenario": sc, "entry": entry}
    if call is not None:
        d["call"] = call
    d.update(extra)
    return d


def o_invalid_answer(rec):
    """A sleep handler that answers with something that is not a SleepDecision (a made-up value, or the plain string that merely spells
    a decision) has answered nothing: the run must not act on it - no before_sleep, no sleep, no SCHEDULED / ABORTED event on the strength
    of that answer.  (What the library does instead - it raises ValueError, which execute() may book as a failed attempt, KF4 - is
    not judged here.)"""
    tr = rec.trace
    for i, ev in enumerate(tr):
        if ev[0] == "handler" and ev[4] == "bogus":
            for z in tr[i + 1:]:
                if z[0] in ("before_sleep", "sleep", "dsleep") or (z[0] == "metric" and z[1] in ("scheduled", "aborted")):
                    yield "invalid-handler-answer-obeyed", f"the sleep handler answered with a non-SleepDecision at attempt {ev[2]}; the run went on with {z[:4]}"
                    return
                if z[0] in ("handler", "op", "classify", "rclassify", "strategy", "poll", "fault"):
                    break


def check_recs(ctx, sc, entry, recs, oracle_list, stats):
    """Apply oracles to every call record; returns number of violations reported."""
    n = 0
    for rec in recs:
        if any(ev[0] == "handler" and ev[4] == "bogus" for ev in rec.trace):
            # an invalid handler answer is a fault of the caller's code: the run is judged only for not obeying it
            ctx.cnt["calls_with_an_invalid_handler_answer"] += 1
            for key, msg in o_invalid_answer(rec):
                n += 1
                ctx.viol(key, f"[{entry} call#{rec.idx}] {msg}", payload(sc, entry, rec.idx))
            continue
        v = View(rec, sc)
        for o in oracle_list:
            for key, msg in o(v, stats) if o.__code__.co_argcount >= 2 else o(v):
                n += 1
                ctx.viol(key, f"[{entry} call#{rec.idx}] {msg}", payload(sc, entry, rec.idx))
    return n


def flush_stats(ctx, stats):
    for k, n in stats.items():
        ctx.cnt[k] += n
    stats.clear()


def describe(rec, limit=40):
    """Compact printable trace sample."""
    out = []
    for ev in rec.trace[:limit]:
        out.append([ev[0]] + [x if isinstance(x, (int, float, str, bool, type(None))) else repr(x) for x in ev[1:]])
    return {"entry": rec.entry, "trace": out, "final": [rec.final[0], repr(rec.final[1])[:200]]}


class Collector:
    """Minimal stand-in for Ctx when a slice-specific judge is re-run by --replay."""

    def __init__(self, prop="C00", seed=0):
        import collections

        self.cnt = collections.Counter()
        self.prop, self.seed, self.shard, self.nshards = prop, seed, 0, 1
        self.found = []

    def inc(self, k, n=1):
        self.cnt[k] += n

    def viol(self, key, msg, payload):
        self.found.append((key, msg))

    def add(self, *a):
        pass

    def add_hash(self, *a):
        pass

    def cell(self, *a):
        pass

    def mx(self, *a):
        pass

    def sample(self, *a):
        pass


def replay_with(data, judge):
    """--replay for violations reported by a slice-specific judge(ctx, scenario, entry)."""
    p = data["payload"]
    c = Collector()
    judge(c, p["scenario"], p["entry"])
    for k, m in c.found:
        print(f"  !! [{k}] {m}")
    print("replay:", "violation reproduced" if c.found else "no violation on this tree")
    return 1 if c.found else 0


def replay_trace(data, oracle_list, *, manual=True):
    """Generic --replay: re-run the stored scenario through the stored entry verbosely."""
    p = data["payload"]
    if "tspec" in p:
        from .. import tconc

        return tconc.replay(p)
    sc, entry = p["scenario"], p["entry"]
    recs, h, w = rig.run(sc, entry, manual=manual)
    bad = 0
    for rec in recs:
        print(f"--- {entry} call#{rec.idx}")
        for ev in rec.trace:
            print("   ", ev)
        print("    final:", rec.final)
        if any(ev[0] == "handler" and ev[4] == "bogus" for ev in rec.trace):
            for key, msg in o_invalid_answer(rec):
                print(f"  !! [{key}] {msg}")
                bad += 1
            continue
        v = View(rec, sc)
        for o in oracle_list:
            for key, msg in o(v, {}) if o.__code__.co_argcount >= 2 else o(v):
                print(f"  !! [{key}] {msg}")
                bad += 1
    print("replay:", "violation reproduced" if bad else "no violation on this tree")
    return 1 if bad else 0


def repo_suite_under_monitors(ctx, kind):
    """Auxiliary workload (thorough tiers, shard 0): the maintainers' own tests run under rv.pytest_shadow;
    problems of `kind` ('caps' | 'breaker' | 'budget' | 'events') reported by the plugin are violations."""
    import json
    import os
    import subprocess
    import sys
    import tempfile

    from .. import core, env

    if ctx.shard != 0:
        return
    repo = env.repo_root()
    if not os.path.isdir(os.path.join(repo, "tests")):
        ctx.inc("repo_suite_not_available")
        return
    fd, out = tempfile.mkstemp(prefix="rv-shadow-", suffix=".json", dir=os.path.join(core.ROOT, ".work"))
    os.close(fd)
    envv = dict(os.environ, PYTHONPATH=core.ROOT + os.pathsep + os.path.join(repo, "src"), RV_SHADOW_OUT=out, PYTHONDONTWRITEBYTECODE="1")
    try:
        r = subprocess.run([sys.executable, "-m", "pytest", "-q", "-p", "no:cacheprovider", "--no-cov", "-p", "rv.pytest_shadow", "--timeout=600"],
                           cwd=repo, env=envv, capture_output=True, text=True, timeout=1200)
        data = json.load(open(out, encoding="utf-8"))
    except Exception as x:  # noqa: BLE001
        ctx.inc("repo_suite_under_monitors_failed_to_run")
        ctx.cnt["repo_suite_note:" + type(x).__name__] += 1
        return
    finally:
        try:
            os.remove(out)
        except OSError:
            pass
    ctx.inc("repo_suite_runs_under_monitors")
    for k, v in data["stats"].items():
        ctx.cnt["repo_suite:" + k] += v
    for pr in data["problems"]:
        if pr["kind"] == kind:
            ctx.viol("maintainers-test-under-monitor:" + kind, f"[{pr['test']}] {pr['msg']}", {"shadow_plugin": pr})
        elif pr["kind"] == "monitor-error":
            ctx.cnt["repo_suite:monitor_errors"] += 1


def crossing_slice(ctx, tier, rng, run_one, entries=None, quick_n=800, thorough_n=20000, per=2):
    """Shared workload: the clock crosses the deadline inside one callback of the backoff phase (gen.crossing_scenarios)."""
    n = (quick_n if tier == "quick" else thorough_n) // ctx.nshards
    for sc in gen.crossing_scenarios(rng, n):
        for e in pick_entries(rng, entries or rig.ENTRIES, per):
            run_one(sc, e)
        ctx.cnt["crossing_scenarios:" + sc["crossing"]] += 1


def judge_unobserved(ctx, sc, e):
    """One scenario, one entry point: with the recording hooks attached and with nobody watching."""
    import copy

    from .. import oracles as O

    sc2 = copy.deepcopy(sc)
    sc2["no_hooks"] = True
    ra, _, _ = rig.run(sc, e)
    rb, _, _ = rig.run(sc2, e)
    ctx.inc("runs", 2)
    ctx.inc("calls", len(ra) + len(rb))
    ctx.inc("unobserved_run_pairs")
    keep = ("op", "sleep", "strategy", "srec", "poll")
    for a, b in zip(ra, rb):
        pa = [x for x in a.trace if x[0] in keep]
        pb = [x for x in b.trace if x[0] in keep]
        fa, fb = O.canon_final(View(a, sc)), O.canon_final(View(b, sc2))
        if [x[0] for x in pa] != [x[0] for x in pb] or [x for x in pa if x[0] == "sleep"] != [x for x in pb if x[0] == "sleep"] or fa != fb:
            d = next((i for i, (x, y) in enumerate(zip(pa, pb)) if x != y), min(len(pa), len(pb)))
            ctx.viol("behaviour-depends-on-being-observed", f"[{e} call#{a.idx}] with hooks attached: {len([x for x in pa if x[0] == 'op'])} invocations, delivered {fa}; "
                     f"with nobody watching: {len([x for x in pb if x[0] == 'op'])} invocations, delivered {fb}; first difference at step {d}: {pa[d:d + 1]} vs {pb[d:d + 1]}",
                     payload(sc, e, a.idx))
            return
        if fa[0] in ("stopped", "exception"):
            ctx.inc("unobserved_failed_runs_compared")


def unobserved_slice(ctx, tier, rng, entries=None, quick_n=500, thorough_n=12000, per=3):
    """Shared workload: the same scenario through the same entry point twice - once with the recording hooks attached, once with
    nobody watching (no on_metric / on_log, no attempt hooks, no abort predicate, no timeline; short policies included, max_attempts=1
    among them).  What the caller can see without hooks must not depend on them: the operation's invocations, the sleeps asked of the
    sleeper, the strategy's calls and what is finally delivered.  (The observed run is the one the other oracles judge.)"""
    n = (quick_n if tier == "quick" else thorough_n) // ctx.nshards
    for k in range(n):
        sc = gen.rand_scenario(rng, max_attempts=(1, 4), p_special=0.04, specials=("abort", "nested_exh", "cancel"), p_budget=0.2, p_handler=0.2, p_abort=0.0, ncalls=(1, 2), p_attempt_timeout=0.1,
                               p_res_none=0.1)
        sc["fault"] = None
        sc["poll"] = False
        sc["timeline"] = False
        sc["place"]["hooks"] = "none"
        if k % 3 == 0:
            sc["place"]["before_sleep"] = "none"
        if k % 4 == 1:
            # nobody watching, but somebody may still want to stop: an abort predicate (and nothing else) is passed
            sc["poll"] = True
            for c in sc["calls"]:
                c["abort_at"] = rng.choice([0, 0, 1, 2, None])
            ctx.inc("unobserved_scenarios_with_an_abort_predicate")
        if k % 3 == 1:
            sc["cfg"]["result_classifier"] = False  # the barest policy: classifier, strategy, limits
        for e in pick_entries(rng, entries or rig.ENTRIES, per):
            judge_unobserved(ctx, sc, e)


def default_limits_slice(ctx, run_one, entries=None):
    """Shared workload: every entry point, built WITHOUT limits (no deadline_s, max_attempts, max_unknown_attempts passed): the
    documented defaults - 60 s, 6 attempts, 2 retries after UNKNOWN failures - are the configuration the run is judged against.
    Long enough failure scripts to reach each of them."""
    shapes = {
        "unknown": [["exc", "UNKNOWN", None]] * 8,
        "transient": [["exc", "TRANSIENT", None]] * 8,
        "results": [["res", "SERVER_ERROR", None]] * 8,
        "slow": [["exc", "TRANSIENT", None]] * 8,
    }
    k = 0
    for e in entries or rig.ENTRIES:
        for name, outs in shapes.items():
            for via in ("direct", "config", "attrs"):
                k += 1
                if k % ctx.nshards != ctx.shard:
                    continue
                if via != "direct" and e.lstrip("a").startswith("deco"):
                    continue
                cfg = gen.mk_cfg(max_attempts=6, deadline_s=60.0, max_unknown=2)
                cfg["omit_limits"] = True
                call = gen.mk_call([list(o) for o in outs], strat_values=[0.0 if name != "slow" else 16.0] * 8, durations=[0.0 if name != "slow" else 1.0] * 8)
                sc = {"cfg": cfg, "place": gen.default_place(), "bs_kind": "sync", "sleeper_kind": "async", "timeline": False, "poll": False, "calls": [call], "fault": None,
                      "via_config": via == "config", "via_attrs": via == "attrs"}
                run_one(sc, e)
                ctx.inc("default_limit_runs")
                ctx.cnt["default_limit_runs:" + name] += 1


def crossing_floors(ctx, floors, n=60):
    for w_ in ("handler", "before_sleep", "record_failure"):
        floors["crossing_scenarios:" + w_] = (ctx.cnt["crossing_scenarios:" + w_], n)


def reconfig_slice(ctx, tier, rng, run_one, quick_n=500, thorough_n=12000, per=2):
    """Shared workload: the caller reassigns public attributes of the policy object (deadline, max_attempts, max_unknown_attempts,
    per_class_max_attempts) between two calls; each call is judged against the configuration in force when it was made."""
    ents = [e for e in rig.ENTRIES if not e.lstrip("a").startswith("deco")]
    n = (quick_n if tier == "quick" else thorough_n) // ctx.nshards
    for k in range(n):
        sc = gen.rand_scenario(rng, p_special=0.0, p_budget=0.1, p_handler=0.2, p_abort=0.05, ncalls=(2, 3), timing=True)
        for c in sc["calls"][1:]:
            st = {}
            for f in rng.sample(["deadline_s", "max_attempts", "max_unknown", "per_class"], rng.randint(1, 2)):
                if f == "deadline_s":
                    st[f] = rng.choice([0.25, 0.5, 1.0, 2.0, 1000.0])
                elif f == "max_attempts":
                    st[f] = rng.randint(1, 6)
                elif f == "max_unknown":
                    st[f] = rng.choice([None, 0, 1, 3])
                else:
                    st[f] = {c_: rng.randint(0, 3) for c_ in rng.sample(gen.CLASSES, rng.randint(0, 3))}
            c["set"] = st
            ctx.cnt["reconfigured:" + "+".join(sorted(st))] += 1
        # the first call must leave something to go stale: make it fail at least once
        c0 = sc["calls"][0]
        if c0["outcomes"][0][0] == "ok":
            c0["outcomes"][0] = ["exc", rng.choice(gen.RETRYABLE[:4]), None]
        for e in pick_entries(rng, ents, per):
            run_one(sc, e)
        ctx.inc("reconfigured_scenarios")


def long_run_slice(ctx, tier, rng, run_one, quick_n=12, thorough_n=120, horizons=(40, 120, 400, 1100)):
    """Shared workload: ONE call that keeps failing for tens to more than a thousand attempts (batch jobs with max_attempts in the
    thousands and zero-cost sleeps).  Whatever the engine keeps per call - tallies per class, the attempt number it hands to the
    strategy, histories - has to stay right over that horizon: capped classes recur sparsely among uncapped failures, so a cap is
    reached only after many attempts."""
    n = max(1, (quick_n if tier == "quick" else thorough_n) // ctx.nshards)
    for k in range(n):
        N = horizons[(k + ctx.shard) % len(horizons)]
        period = rng.choice([7, 13, 20, 33])
        capped = rng.choice(["RATE_LIMIT", "CONCURRENCY", "SERVER_ERROR", "UNKNOWN"])
        cap = rng.choice([2, 3, 5]) if N < 1000 else 10**6  # the longest runs end at max_attempts: the strategy is asked > 1000 times
        outs = [[rng.choice(["exc", "res"]), "TRANSIENT", None] for _ in range(period)]
        outs[rng.randrange(period)] = [rng.choice(["exc", "res"]), capped, None]
        cfg = gen.mk_cfg(max_attempts=N, deadline_s=1.0e7, max_unknown=cap if capped == "UNKNOWN" else None, per_class={} if capped == "UNKNOWN" else {capped: cap},
                         class_strategies=rng.sample(["TRANSIENT", capped], rng.randint(0, 2)), legacy=["default"] if k % 3 == 0 else [], use_classification=bool(k % 2))
        place = gen.default_place()
        place["sleeper"] = "policy" if k % 2 else "call"
        sc = {"cfg": cfg, "place": place, "bs_kind": "sync", "sleeper_kind": "async", "timeline": bool(k % 2), "poll": False,
              "calls": [gen.mk_call(outs, strat_values=[rng.choice([0.0, gen.G, 0.25]) for _ in range(5)])], "fault": None}
        for e in pick_entries(rng, [x for x in rig.ENTRIES if ".ctx" not in x], 2):
            run_one(sc, e)
        ctx.inc("long_runs")
        ctx.mx("longest_run_attempt_horizon", N)


def function_threads(ctx, viol, label, make, calls, after=(), limit=60, bound=2, counter="function_thread_schedules"):
    """A callable object that is meant to be a function of its argument (a strategy, a classifier), shared by threads.
    `make()` builds a FRESH object; `calls` = one argument per thread; each thread calls the shared object once under the controlled
    scheduler (pre-emption before every source line of the package), then `after` arguments are evaluated sequentially on the same
    object.  Every answer must equal the answer a fresh object gives to that argument alone."""
    from .. import sched

    def alone(arg):
        return make()(arg)

    try:
        want = [alone(a) for a in calls]
        want_after = [alone(a) for a in after]
    except BaseException as x:  # noqa: BLE001
        viol("raised-when-called-alone:" + type(x).__name__, f"{label}: {x!r}", {"function_threads": label})
        return False
    progs = [[(lambda a: (lambda f: f(a)))(a)] for a in calls]
    prefix, n = [], 0
    deep = sched.Deepening(bound, limit)
    while True:
        r = sched.run_schedule(make, progs, prefix=prefix)
        s_ = r["sched"]
        n += 1
        key = [x[1] for x in s_.trace]
        ctx.cnt[counter] += 1
        ctx.cnt[counter.replace("schedules", "line_events")] += s_.line_events
        if not r["completed"]:
            ctx.inconclusive_because(f"scheduler watchdog fired for {label}")
            return False
        got = [x[0] if x else None for x in r["results"]]
        later = None
        if not r["errors"]:
            try:
                later = [r["obj"](a) for a in after]
            except BaseException as x:  # noqa: BLE001
                later = repr(x)
        if r["errors"] or got != want or later != want_after:
            viol("answer-depends-on-another-thread", f"{label}: alone -> {want} (then {want_after}); called by {len(calls)} threads at once -> {got}, afterwards -> {later}; errors {r['errors']}; schedule {key}",
                 {"function_threads": label, "schedule": key})
            return False
        nxt = deep.next(s_.trace)
        if nxt is None:
            break
        prefix = nxt
    return True
