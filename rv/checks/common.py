"""Helpers shared by the trace-based checks."""

from __future__ import annotations

import random

from .. import gen, rig
from ..view import View

ASSUME_COMMON = [
    "redress is imported from $VERIF_REPO/src (default /repo): the current working tree, not a copy",
    "time, sleep and randomness reach the library only through time.monotonic/time.time/time.sleep/asyncio.sleep/random.uniform, all interposed before import; datetime.now() is not interposable",
    "instants within 1 microsecond of the deadline are don't-care (the engine compares timedeltas)",
    "a verdict covers the executions observed (counts below), nothing more",
]


def rng_for(ctx, stream):
    return random.Random(f"{ctx.prop}/{ctx.seed}/{ctx.shard}/{stream}")


def pick_entries(rng, pool, k):
    if k >= len(pool):
        return list(pool)
    return rng.sample(pool, k)


def payload(sc, entry, call=None, **extra):
    d = {"scenario": sc, "entry": entry}
    if call is not None:
        d["call"] = call
    d.update(extra)
    return d


def check_recs(ctx, sc, entry, recs, oracle_list, stats):
    """Apply oracles to every call record; returns number of violations reported."""
    n = 0
    for rec in recs:
        v = View(rec, sc)
        for o in oracle_list:
            for key, msg in o(v, stats) if o.__code__.co_argcount >= 2 else o(v):
                n += 1
                ctx.viol(key, f"[{entry} call#{rec.idx}] {msg}", payload(sc, entry, rec.idx))
    return n


def flush_stats(ctx, stats):
    for k, n in stats.items():
        ctx.cnt[k] += n
    stats.clear()


def describe(rec, limit=40):
    """Compact printable trace sample."""
    out = []
    for ev in rec.trace[:limit]:
        out.append([ev[0]] + [x if isinstance(x, (int, float, str, bool, type(None))) else repr(x) for x in ev[1:]])
    return {"entry": rec.entry, "trace": out, "final": [rec.final[0], repr(rec.final[1])[:200]]}


def replay_trace(data, oracle_list, *, manual=True):
    """Generic --replay: re-run the stored scenario through the stored entry verbosely."""
    p = data["payload"]
    if "tspec" in p:
        from .. import tconc

        return tconc.replay(p)
    sc, entry = p["scenario"], p["entry"]
    recs, h, w = rig.run(sc, entry, manual=manual)
    bad = 0
    for rec in recs:
        print(f"--- {entry} call#{rec.idx}")
        for ev in rec.trace:
            print("   ", ev)
        print("    final:", rec.final)
        v = View(rec, sc)
        for o in oracle_list:
            for key, msg in o(v, {}) if o.__code__.co_argcount >= 2 else o(v):
                print(f"  !! [{key}] {msg}")
                bad += 1
    print("replay:", "violation reproduced" if bad else "no violation on this tree")
    return 1 if bad else 0


def repo_suite_under_monitors(ctx, kind):
    """Auxiliary workload (thorough tiers, shard 0): the maintainers' own tests run under rv.pytest_shadow;
    problems of `kind` ('caps' | 'breaker' | 'budget' | 'events') reported by the plugin are violations."""
    import json
    import os
    import subprocess
    import sys
    import tempfile

    from .. import core, env

    if ctx.shard != 0:
        return
    repo = env.repo_root()
    if not os.path.isdir(os.path.join(repo, "tests")):
        ctx.inc("repo_suite_not_available")
        return
    fd, out = tempfile.mkstemp(prefix="rv-shadow-", suffix=".json", dir=os.path.join(core.ROOT, ".work"))
    os.close(fd)
    envv = dict(os.environ, PYTHONPATH=core.ROOT + os.pathsep + os.path.join(repo, "src"), RV_SHADOW_OUT=out, PYTHONDONTWRITEBYTECODE="1")
    try:
        r = subprocess.run([sys.executable, "-m", "pytest", "-q", "-p", "no:cacheprovider", "--no-cov", "-p", "rv.pytest_shadow", "--timeout=600"],
                           cwd=repo, env=envv, capture_output=True, text=True, timeout=1200)
        data = json.load(open(out, encoding="utf-8"))
    except Exception as x:  # noqa: BLE001
        ctx.inc("repo_suite_under_monitors_failed_to_run")
        ctx.cnt["repo_suite_note:" + type(x).__name__] += 1
        return
    finally:
        try:
            os.remove(out)
        except OSError:
            pass
    ctx.inc("repo_suite_runs_under_monitors")
    for k, v in data["stats"].items():
        ctx.cnt["repo_suite:" + k] += v
    for pr in data["problems"]:
        if pr["kind"] == kind:
            ctx.viol("maintainers-test-under-monitor:" + kind, f"[{pr['test']}] {pr['msg']}", {"shadow_plugin": pr})
        elif pr["kind"] == "monitor-error":
            ctx.cnt["repo_suite:monitor_errors"] += 1
