"""Helpers shared by the trace-based checks."""

from __future__ import annotations

import random

from .. import gen, rig
from ..view import View

ASSUME_COMMON = [
    "redress is imported from $VERIF_REPO/src (default /repo): the current working tree, not a copy",
    "time, sleep and randomness reach the library only through time.monotonic/time.time/time.sleep/asyncio.sleep/random.uniform, all interposed before import; datetime.now() is not interposable",
    "instants within 1 microsecond of the deadline are don't-care (the engine compares timedeltas)",
    "a verdict covers the executions observed (counts below), nothing more",
]


def rng_for(ctx, stream):
    return random.Random(f"{ctx.prop}/{ctx.seed}/{ctx.shard}/{stream}")


def pick_entries(rng, pool, k):
    if k >= len(pool):
        return list(pool)
    return rng.sample(pool, k)


def payload(sc, entry, call=None, **extra):
    d = {"scenario": sc, "entry": entry}
    if call is not None:
        d["call"] = call
    d.update(extra)
    return d


def check_recs(ctx, sc, entry, recs, oracle_list, stats):
    """Apply oracles to every call record; returns number of violations reported."""
    n = 0
    for rec in recs:
        v = View(rec, sc)
        for o in oracle_list:
            for key, msg in o(v, stats) if o.__code__.co_argcount >= 2 else o(v):
                n += 1
                ctx.viol(key, f"[{entry} call#{rec.idx}] {msg}", payload(sc, entry, rec.idx))
    return n


def flush_stats(ctx, stats):
    for k, n in stats.items():
        ctx.cnt[k] += n
    stats.clear()


def describe(rec, limit=40):
    """Compact printable trace sample."""
    out = []
    for ev in rec.trace[:limit]:
        out.append([ev[0]] + [x if isinstance(x, (int, float, str, bool, type(None))) else repr(x) for x in ev[1:]])
    return {"entry": rec.entry, "trace": out, "final": [rec.final[0], repr(rec.final[1])[:200]]}


def replay_trace(data, oracle_list, *, manual=True):
    """Generic --replay: re-run the stored scenario through the stored entry verbosely."""
    p = data["payload"]
    sc, entry = p["scenario"], p["entry"]
    recs, h, w = rig.run(sc, entry, manual=manual)
    bad = 0
    for rec in recs:
        print(f"--- {entry} call#{rec.idx}")
        for ev in rec.trace:
            print("   ", ev)
        print("    final:", rec.final)
        v = View(rec, sc)
        for o in oracle_list:
            for key, msg in o(v, {}) if o.__code__.co_argcount >= 2 else o(v):
                print(f"  !! [{key}] {msg}")
                bad += 1
    print("replay:", "violation reproduced" if bad else "no violation on this tree")
    return 1 if bad else 0
