"""Attempts that really hang past attempt_timeout_s (sync runners; real time, real worker threads).

The verdicts are counts, not timings: whatever the machine's speed, every attempt the library reports
(retry events, outcome.attempts) must correspond to an invocation of the operation, and a retry that was
granted must be followed by a real invocation.  Hung operations are released at the end.
"""

from __future__ import annotations

import threading

from .. import env

env.import_redress()

from redress import ErrorClass, Policy, Retry, RetryPolicy  # noqa: E402


def _run(kind, meth, release, hang_first=True, max_attempts=3, timeout=0.05):
    inv = []
    events = []

    def op():
        inv.append(len(inv) + 1)
        if hang_first and len(inv) == 1:
            release.wait(8.0)  # hangs far beyond attempt_timeout_s
            return "late"
        return "ok"

    kw = dict(classifier=lambda e: ErrorClass.TRANSIENT, strategy=lambda c: 0.0, attempt_timeout_s=timeout, max_attempts=max_attempts, deadline_s=60.0)
    pol = Retry(**kw) if kind == "retry" else Policy(retry=Retry(**kw)) if kind == "policy" else RetryPolicy(**kw)
    ckw = dict(on_metric=lambda ev, a, s, t: events.append((ev, a)), sleeper=lambda s: None)
    final = None
    try:
        if meth == "execute":
            final = ("return", pol.execute(op, **ckw))
        else:
            final = ("return", pol.call(op, **ckw))
    except BaseException as x:  # noqa: BLE001
        final = ("raise", x)
    return inv, events, final


def hung_attempt_runs(ctx, prop, rounds=1):
    """prop: 'C03' or 'C11' (selects which statement a mismatch is reported under)."""
    release = threading.Event()
    try:
        for _ in range(rounds):
            for kind in ("retry", "policy", "rp"):
                for meth in ("call", "execute"):
                    inv, events, final = _run(kind, meth, release)
                    ctx.inc("hung_attempt_runs")
                    retries = [e for e in events if e[0] == "retry"]
                    desc = {"entry": f"{kind}.{meth}", "invocations": inv, "events": events, "final": repr(final[1])[:200]}
                    # every granted retry must be followed by a real invocation (or the run must have ended otherwise)
                    reported_attempts = max([a for _, a in events] + [0])
                    if prop == "C03" and len(retries) >= len(inv) and len(retries) > 0 and reported_attempts > len(inv):
                        ctx.viol("retry-granted-but-operation-not-invoked", f"[{kind}.{meth}] attempt 1 hung past attempt_timeout_s; the library reported {len(retries)} retries / attempt numbers up to {reported_attempts} "
                                 f"but the operation was invoked {len(inv)} time(s): {events}", {"hang": desc})
                    if prop == "C11" and meth == "execute" and final[0] == "return" and final[1].attempts != len(inv):
                        ctx.viol("outcome-wrong-attempts", f"[{kind}.execute] attempt 1 hung past attempt_timeout_s; outcome.attempts={final[1].attempts} but the operation was invoked {len(inv)} time(s)", {"hang": desc})
            # several operations left hanging by earlier, separate runs; then a healthy run
            for _i in range(5):
                _run("retry", "call", release, max_attempts=1)
            for meth in ("call", "execute"):
                inv, events, final = _run("retry", meth, release, hang_first=False, max_attempts=2, timeout=0.2)
                ctx.inc("healthy_runs_after_hung_ones")
                desc = {"entry": f"retry.{meth}", "invocations": inv, "events": events, "final": repr(final[1])[:200]}
                reported_attempts = max([a for _, a in events] + [0])
                if prop == "C03" and reported_attempts > len(inv):
                    ctx.viol("retry-granted-but-operation-not-invoked", f"[retry.{meth}] healthy operation after 5 hung ones: events {events} but invoked {len(inv)} time(s)", {"hang": desc})
                if prop == "C11" and meth == "execute" and final[0] == "return" and final[1].attempts != len(inv):
                    ctx.viol("outcome-wrong-attempts", f"[retry.execute] healthy operation after 5 hung ones: outcome.attempts={final[1].attempts}, ok={final[1].ok}, invoked {len(inv)} time(s)", {"hang": desc})
    finally:
        release.set()
