"""Attempts that really hang past attempt_timeout_s (sync runners; real time, real worker threads).

The verdicts are counts, not timings: whatever the machine's speed, every attempt the library reports
(retry events, outcome.attempts) must correspond to an invocation of the operation, and a retry that was
granted must be followed by a real invocation.  Hung operations are released at the end.
"""

from __future__ import annotations

import threading

from .. import env

env.import_redress()

from redress import ErrorClass, Policy, Retry, RetryPolicy  # noqa: E402


def _run(kind, meth, release, hang_first=True, max_attempts=3, timeout=0.05):
    inv = []
    events = []

    def op():
        inv.append(len(inv) + 1)
        if hang_first and len(inv) == 1:
            release.wait(8.0)  # hangs far beyond attempt_timeout_s
            return "late"
        return "ok"

    kw = dict(classifier=lambda e: ErrorClass.TRANSIENT, strategy=lambda c: 0.0, attempt_timeout_s=timeout, max_attempts=max_attempts, deadline_s=60.0)
    pol = Retry(**kw) if kind == "retry" else Policy(retry=Retry(**kw)) if kind == "policy" else RetryPolicy(**kw)
    ckw = dict(on_metric=lambda ev, a, s, t: events.append((ev, a)), sleeper=lambda s: None)
    final = None
    try:
        if meth == "execute":
            final = ("return", pol.execute(op, **ckw))
        else:
            final = ("return", pol.call(op, **ckw))
    except BaseException as x:  # noqa: BLE001
        final = ("raise", x)
    return inv, events, final


def hung_attempt_runs(ctx, prop, rounds=1):
    """prop: 'C03', 'C04' or 'C11' (selects which statement a mismatch is reported under)."""
    release = threading.Event()
    try:
        for _ in range(rounds):
            for kind in ("retry", "policy", "rp"):
                for meth in ("call", "execute"):
                    inv, events, final = _run(kind, meth, release)
                    ctx.inc("hung_attempt_runs")
                    retries = [e for e in events if e[0] == "retry"]
                    desc = {"entry": f"{kind}.{meth}", "invocations": inv, "events": events, "final": repr(final[1])[:200]}
                    # every granted retry must be followed by a real invocation (or the run must have ended otherwise)
                    reported_attempts = max([a for _, a in events] + [0])
                    if prop == "C03" and len(retries) >= len(inv) and len(retries) > 0 and reported_attempts > len(inv):
                        ctx.viol("retry-granted-but-operation-not-invoked", f"[{kind}.{meth}] attempt 1 hung past attempt_timeout_s; the library reported {len(retries)} retries / attempt numbers up to {reported_attempts} "
                                 f"but the operation was invoked {len(inv)} time(s): {events}", {"hang": desc})
                    slow_machine = final[0] == "raise" and isinstance(final[1], TimeoutError)  # later attempts missed the 50 ms too: a loaded machine, not a finding
                    if prop == "C04" and meth == "call" and final != ("return", "ok") and not slow_machine:
                        # attempt 1 hangs (abandoned at the timeout), attempt 2 answers "ok": that value is what call() returns
                        ctx.viol("hung-attempt:first-success-not-returned", f"[{kind}.call] attempt 1 hung past attempt_timeout_s and attempt 2 would return 'ok'; call() delivered {final[0]} {final[1]!r} "
                                 f"after {len(inv)} invocation(s); events {events}", {"hang": desc})
                    if prop == "C11" and meth == "execute" and final[0] == "return" and final[1].attempts != len(inv):
                        ctx.viol("outcome-wrong-attempts", f"[{kind}.execute] attempt 1 hung past attempt_timeout_s; outcome.attempts={final[1].attempts} but the operation was invoked {len(inv)} time(s)", {"hang": desc})
            # several operations left hanging by earlier, separate runs; then a healthy run
            for _i in range(5):
                _run("retry", "call", release, max_attempts=1)
            for meth in ("call", "execute"):
                inv, events, final = _run("retry", meth, release, hang_first=False, max_attempts=2, timeout=0.2)
                ctx.inc("healthy_runs_after_hung_ones")
                desc = {"entry": f"retry.{meth}", "invocations": inv, "events": events, "final": repr(final[1])[:200]}
                reported_attempts = max([a for _, a in events] + [0])
                if prop == "C03" and reported_attempts > len(inv):
                    ctx.viol("retry-granted-but-operation-not-invoked", f"[retry.{meth}] healthy operation after 5 hung ones: events {events} but invoked {len(inv)} time(s)", {"hang": desc})
                if prop == "C11" and meth == "execute" and final[0] == "return" and final[1].attempts != len(inv):
                    ctx.viol("outcome-wrong-attempts", f"[retry.execute] healthy operation after 5 hung ones: outcome.attempts={final[1].attempts}, ok={final[1].ok}, invoked {len(inv)} time(s)", {"hang": desc})
    finally:
        release.set()


def cancel_while_unwinding(ctx, rounds=1):
    """C13, one more cancellation point of async runs under attempt_timeout_s (real loop, real time): the attempt has timed out,
    its operation is still unwinding (a cleanup that awaits) and the cancellation of the whole run arrives exactly then.
    It must propagate at once: no classification of a 'timeout', no backoff, no further invocation."""
    import asyncio

    from redress import AsyncPolicy, AsyncRetry, AsyncRetryPolicy

    async def one(kind, meth, when):
        inv = []
        sleeps = []
        events = []
        unwinding = asyncio.Event()
        proceed = asyncio.Event()

        async def op():
            inv.append(len(inv) + 1)
            if len(inv) > 1:
                return "ok"
            try:
                await asyncio.Event().wait()  # hangs: attempt_timeout_s fires
            except asyncio.CancelledError:
                unwinding.set()
                await proceed.wait()  # cleanup that awaits (closing a connection, releasing a lease)
                raise

        async def sleeper(s):
            sleeps.append(s)

        kw = dict(classifier=lambda e: ErrorClass.TRANSIENT, strategy=lambda c: 0.0, attempt_timeout_s=0.02, max_attempts=3, deadline_s=60.0)
        pol = AsyncRetry(**kw) if kind == "retry" else AsyncPolicy(retry=AsyncRetry(**kw)) if kind == "policy" else AsyncRetryPolicy(**kw)
        ckw = dict(on_metric=lambda ev, a, s, t: events.append((ev, a)), sleeper=sleeper)
        task = asyncio.ensure_future(pol.execute(op, **ckw) if meth == "execute" else pol.call(op, **ckw))
        await asyncio.wait_for(unwinding.wait(), 5.0)
        if when == "during-cleanup":
            task.cancel()
            await asyncio.sleep(0)
            proceed.set()
        else:  # control: the cleanup finishes, the run goes on to its backoff; cancelled nowhere
            proceed.set()
        try:
            r = await asyncio.wait_for(task, 5.0)
            return inv, sleeps, events, ("return", r)
        except asyncio.CancelledError as x:
            return inv, sleeps, events, ("raise", x)
        except BaseException as x:  # noqa: BLE001
            return inv, sleeps, events, ("raise", x)

    for _ in range(rounds):
        for kind in ("retry", "policy", "rp"):
            for meth in ("call", "execute"):
                for when in ("during-cleanup", "never"):
                    loop = asyncio.new_event_loop()
                    try:
                        try:
                            inv, sleeps, events, final = loop.run_until_complete(one(kind, meth, when))
                        except asyncio.TimeoutError:
                            ctx.inconclusive_because(f"watchdog: a{kind}.{meth} cancel-{when} did not finish within 5 s")
                            continue
                    finally:
                        loop.close()
                    ctx.inc("runs")
                    if when == "never":
                        ctx.inc("timed_out_attempt_controls")
                        continue
                    ctx.inc("cancellations_while_a_timed_out_attempt_unwinds")
                    ctx.add("cells", f"a{kind}.{meth}|cancel-while-unwinding")
                    desc = {"entry": f"a{kind}.{meth}", "invocations": inv, "sleeps": sleeps, "events": events, "final": repr(final[1])[:200]}
                    if final[0] != "raise" or not isinstance(final[1], asyncio.CancelledError):
                        ctx.viol("cancellation-swallowed-while-timed-out-attempt-unwinds", f"[a{kind}.{meth}] the run was cancelled while its timed-out attempt was still unwinding; it ended with {final[0]} {final[1]!r} "
                                 f"instead of CancelledError (invocations {inv}, sleeps {sleeps}, events {events})", {"hang": desc})
                    elif len(inv) > 1 or sleeps or events:
                        ctx.viol("work-after-cancellation", f"[a{kind}.{meth}] cancelled while the timed-out attempt was unwinding, yet invocations {inv}, sleeps {sleeps}, events {events}", {"hang": desc})


def twin_runs_with_a_hung_attempt(ctx, rounds=1):
    """C12 with attempts that really hang past attempt_timeout_s: the sync entry points (worker thread per attempt) and their async
    twins (asyncio.wait_for) must perform the same invocations and emit the same events.  Counts only, no timings: attempt 1 hangs
    until the whole comparison is over, later attempts return at once."""
    import asyncio

    from redress import AsyncPolicy, AsyncRetry, AsyncRetryPolicy

    release = threading.Event()

    def sync_run(kind, meth):
        inv, events, final = _run(kind, meth, release, timeout=0.15)
        return inv, events, final

    def async_run(kind, meth):
        inv = []
        events = []

        async def op():
            inv.append(len(inv) + 1)
            if len(inv) == 1:
                await asyncio.Event().wait()  # hangs far beyond attempt_timeout_s
            return "ok"

        async def sleeper(s):
            return None

        kw = dict(classifier=lambda e: ErrorClass.TRANSIENT, strategy=lambda c: 0.0, attempt_timeout_s=0.15, max_attempts=3, deadline_s=60.0)
        pol = AsyncRetry(**kw) if kind == "retry" else AsyncPolicy(retry=AsyncRetry(**kw)) if kind == "policy" else AsyncRetryPolicy(**kw)
        ckw = dict(on_metric=lambda ev, a, s, t: events.append((ev, a)), sleeper=sleeper)
        loop = asyncio.new_event_loop()
        try:
            try:
                r = loop.run_until_complete(asyncio.wait_for(pol.execute(op, **ckw) if meth == "execute" else pol.call(op, **ckw), 20.0))
                final = ("return", r)
            except BaseException as x:  # noqa: BLE001
                final = ("raise", x)
        finally:
            loop.close()
        return inv, events, final

    def canon(final):
        kind, v = final
        if kind == "return" and hasattr(v, "ok"):
            return ("ok" if v.ok else "failed", getattr(v.stop_reason, "value", None), v.attempts)
        if kind == "return":
            return ("ok", None, None)
        return ("raised", type(v).__name__, None)

    try:
        for _ in range(rounds):
            for kind in ("retry", "policy", "rp"):
                for meth in ("call", "execute"):
                    si, se, sf = sync_run(kind, meth)
                    ai, ae, af = async_run(kind, meth)
                    ctx.inc("hung_attempt_twin_comparisons")
                    cs, ca = canon(sf), canon(af)
                    if meth == "call":
                        cs, ca = cs[:2], ca[:2]
                    def reported(ev, inv_):
                        # every attempt the library reports corresponds to an invocation (whatever the machine's speed)
                        return max([a for _, a in ev] + [0]) == len(inv_)

                    if (si != ai or se != ae or cs != ca) and reported(se, si) and reported(ae, ai):
                        # both runs are self-consistent and merely differ in how many attempts timed out: an attempt that should return
                        # at once needed more than attempt_timeout_s on a busy machine.  Timing noise, not a divergence.
                        ctx.inc("hung_attempt_twin_comparisons_disturbed_by_timing")
                        continue
                    if si != ai or se != ae or cs != ca:
                        desc = {"entry": f"{kind}.{meth}", "sync": {"invocations": si, "events": se, "final": repr(sf[1])[:160]}, "async": {"invocations": ai, "events": ae, "final": repr(af[1])[:160]}}
                        ctx.viol("twins-differ-when-an-attempt-hangs", f"[{kind}.{meth} vs a{kind}.{meth}] attempt 1 hangs past attempt_timeout_s: sync invocations {si} events {se} final {cs}; async invocations {ai} events {ae} final {ca}", {"hang": desc})
    finally:
        release.set()


def entry_behind_an_abandoned_attempt(ctx):
    """C02 with a really hanging attempt (sync runner, real time, generous margins): attempt 1 times out after 1.5 s of a 2.5 s
    deadline and keeps running; it is let go at 2.7 s, while attempt 2's own timeout has not expired yet.  The library may not
    have begun an attempt whose operation is entered after the deadline.  Decided causally, not by a stopwatch: a violation needs
    the operation of attempt 2 to be entered after the deadline AND only after the abandoned operation finished (i.e. it was
    waiting for it); a late entry while attempt 1 is still hanging is a stalled machine and counts as inconclusive."""
    t0 = [None]
    entered = {}
    finished = {}
    release = threading.Event()
    real = env.real_monotonic

    def op():
        k = len(entered) + 1
        entered[k] = real() - t0[0]
        if k == 1:
            release.wait(20.0)
            finished[1] = real() - t0[0]
            return "late"
        return "ok"

    def releaser():
        env._REAL["sleep"](2.7)
        release.set()

    events = []
    pol = Retry(classifier=lambda e: ErrorClass.TRANSIENT, strategy=lambda c: 0.0, attempt_timeout_s=1.5, max_attempts=2, deadline_s=2.5)
    th = threading.Thread(target=releaser, daemon=True)
    t0[0] = real()
    th.start()
    try:
        pol.call(op, on_metric=lambda ev, a, s, t: events.append((ev, a, round(real() - t0[0], 3))), sleeper=lambda s: None)
        final = "returned"
    except BaseException as x:  # noqa: BLE001
        final = type(x).__name__
    finally:
        release.set()
    th.join(5.0)
    env._REAL["sleep"](0.05)
    ctx.inc("runs")
    ctx.inc("hung_attempt_deadline_runs")
    desc = {"entered_at": entered, "abandoned_attempt_finished_at": finished, "events": events, "final": final, "deadline_s": 2.5, "attempt_timeout_s": 1.5}
    if 2 in entered and entered[2] > 2.5:
        if 1 in finished and entered[2] >= finished[1]:
            ctx.viol("attempt-entered-after-deadline-behind-an-abandoned-attempt", f"the operation of attempt 2 was entered {entered[2]:.3f}s into the call (deadline_s=2.5), right after the abandoned attempt 1 finished at {finished[1]:.3f}s; "
                     f"events {events}, call {final}", {"hang": desc})
        else:
            ctx.inconclusive_because(f"attempt 2 entered at {entered[2]:.3f}s while attempt 1 was still hanging: the machine stalled for over a second")
    elif 2 in entered:
        ctx.inc("second_attempt_entered_while_first_still_hanging")


def abort_while_other_calls_hang(ctx, n_hung=40):
    """C13 with really hanging attempts of OTHER calls (sync runner, attempt_timeout_s): n_hung concurrent calls whose operations hang
    past their timeout, then one more call that is aborted by abort_if.  Whatever is shared between calls to run attempts under a
    timeout, once that run has ended with AbortRetryError its operation is not invoked any more - also not later, when the hung
    operations of the other calls return.  Counts only."""
    from redress import AbortRetryError

    release = threading.Event()
    started = threading.Semaphore(0)

    def hung_op():
        started.release()
        release.wait(15.0)
        return "late"

    kw = dict(classifier=lambda e: ErrorClass.TRANSIENT, strategy=lambda c: 0.0, deadline_s=60.0)

    def hung_call():
        try:
            Retry(attempt_timeout_s=0.05, max_attempts=1, **kw).call(hung_op, sleeper=lambda s: None)
        except BaseException:  # noqa: BLE001
            pass

    ths = [threading.Thread(target=hung_call, daemon=True) for _ in range(n_hung)]
    for t in ths:
        t.start()
    got = 0
    for _ in range(n_hung):
        if started.acquire(timeout=5.0):
            got += 1
    for t in ths:
        t.join(5.0)
    inv = []
    ended = [False]
    late = []
    polls = [0]

    def op():
        (late if ended[0] else inv).append(1)
        raise ConnectionError("down")

    def abort_if():
        polls[0] += 1
        return polls[0] > 2

    final = None
    try:
        Retry(attempt_timeout_s=0.4, max_attempts=5, **kw).call(op, abort_if=abort_if, sleeper=lambda s: None)
        final = "returned"
    except AbortRetryError:
        final = "AbortRetryError"
    except BaseException as x:  # noqa: BLE001
        final = type(x).__name__
    ended[0] = True
    release.set()
    env._REAL["sleep"](0.5)  # the hung operations return now; anything still queued behind them would run now
    ctx.inc("runs")
    ctx.inc("aborts_while_other_calls_hang")
    ctx.cnt["hung_operations_of_other_calls"] += got
    desc = {"hung_operations_started": got, "invocations_before_the_run_ended": len(inv), "invocations_after": len(late), "polls": polls[0], "final": final}
    if final == "AbortRetryError" and late:
        ctx.viol("operation-invoked-after-the-aborted-run-ended", f"{got} operations of other calls were hanging; the run was aborted (AbortRetryError after {polls[0]} polls, {len(inv)} invocation(s)); once the hung operations "
                 f"returned, its operation was invoked {len(late)} more time(s)", {"hang": desc})
    elif final != "AbortRetryError":
        ctx.cnt["abort_while_hanging_ended_otherwise:" + str(final)] += 1


def interrupt_while_waiting_for_a_timed_attempt(ctx, rounds=3):
    """C13, real threads and a real interrupt: the sync runner waits for an attempt that runs under attempt_timeout_s (in a worker thread)
    when Ctrl-C / a SIGTERM handler calling sys.exit() arrives in the calling thread.  The interrupt propagates at once - not when the
    operation happens to return.  Causal verdict, no duration is judged: the operation stays blocked until the harness releases it AFTER
    call()/execute() has ended; if it gives up waiting first (3 s), the runner was holding the interrupt back until the operation returned."""
    import signal

    if threading.current_thread() is not threading.main_thread():
        ctx.cnt["interrupt_scenarios_skipped_not_main_thread"] += 1
        return
    old = signal.signal(signal.SIGINT, signal.default_int_handler)
    main_ident = threading.main_thread().ident
    try:
        for k in range(rounds):
            release, started = threading.Event(), threading.Event()
            how = []

            def op():
                started.set()
                how.append("released" if release.wait(3.0) else "gave-up-waiting")
                return "late"

            def interrupter():
                if started.wait(5.0):
                    env._REAL["sleep"](0.05)
                    # a real signal aimed at the calling thread (interrupt_main() only sets a flag: it does not wake a thread that is
                    # blocked in a lock wait, which is exactly where the runner is)
                    signal.pthread_kill(main_ident, signal.SIGINT)

            r = Retry(classifier=lambda e: ErrorClass.TRANSIENT, strategy=lambda c: 0.0, deadline_s=1000.0, max_attempts=2, attempt_timeout_s=30.0)
            meth = ["call", "execute", "call"][k % 3]
            t = threading.Thread(target=interrupter, daemon=True)
            t.start()
            final = None
            try:
                getattr(r, meth)(op, sleeper=lambda s_: None)
                final = "returned"
            except KeyboardInterrupt:
                final = "KeyboardInterrupt"
            except BaseException as x:  # noqa: BLE001
                final = type(x).__name__
            blocked_when_ended = not how
            release.set()
            t.join(5.0)
            for _ in range(100):
                if how:
                    break
                env._REAL["sleep"](0.02)
            ctx.inc("runs")
            ctx.inc("interrupts_while_waiting_for_a_timed_attempt")
            desc = {"entry": "retry." + meth, "final": final, "operation_still_blocked_when_the_run_ended": blocked_when_ended, "operation": how}
            if final == "KeyboardInterrupt" and not blocked_when_ended:
                ctx.viol("interrupt-held-back-until-the-operation-returned", f"[retry.{meth}] KeyboardInterrupt arrived while the runner waited for a timed attempt; it was delivered only after the operation had given up waiting "
                         f"to be released ({how}): the interrupt was delayed until the operation returned", {"hang": desc})
            elif final != "KeyboardInterrupt":
                ctx.viol("cancellation-not-propagated", f"[retry.{meth}] KeyboardInterrupt arrived while the runner waited for a timed attempt; the run ended with {final}", {"hang": desc})
    finally:
        signal.signal(signal.SIGINT, old)


def replay_hung_attempt_runs(prop):
    """--replay for a violation found by hung_attempt_runs: the runs are deterministic in their verdicts (counts), so run them again."""
    from .common import Collector

    c = Collector(prop)
    hung_attempt_runs(c, prop)
    for k, m in c.found:
        print(f"  !! [{k}] {m}")
    print("replay:", "violation reproduced" if c.found else "no violation on this tree")
    return 1 if c.found else 0
