"""Shared infrastructure: verdict bookkeeping, evidence, known findings, sharding."""

from __future__ import annotations

import collections
import hashlib
import json
import os
import re
import subprocess
import sys
import tempfile
import time as _time

from . import env

ROOT = os.path.dirname(os.path.dirname(os.path.abspath(__file__)))
LEVELS = {
    "C08": "fault_enumeration",
    "C13": "fault_enumeration",
    "C15": "fault_enumeration",
}


def level_of(prop):
    return LEVELS.get(prop, "exploration")


def jsonable(x, depth=0):
    if depth > 8:
        return repr(x)
    if isinstance(x, float):
        if x != x:
            return "nan"
        if x in (float("inf"), float("-inf")):
            return "inf" if x > 0 else "-inf"
        return x
    if isinstance(x, (str, int, bool)) or x is None:
        return x
    if isinstance(x, dict):
        return {str(k): jsonable(v, depth + 1) for k, v in x.items()}
    if isinstance(x, (list, tuple, set, frozenset)):
        return [jsonable(v, depth + 1) for v in x]
    return repr(x)


def load_known():
    """known_findings.txt -> ({(prop, mechanism): text}, [fixed lines])."""
    known, fixed = {}, []
    path = os.path.join(ROOT, "known_findings.txt")
    if not os.path.exists(path):
        return known, fixed
    for line in open(path, encoding="utf-8"):
        line = line.strip()
        if not line or line.startswith("#"):
            continue
        m = re.match(r"known:\s+property=(\S+)\s+mechanism=(\S+)\s*(.*)", line)
        if m:
            known[(m.group(1), m.group(2))] = m.group(3)
            continue
        if line.startswith("fixed:"):
            fixed.append(line)
    return known, fixed


class Ctx:
    """Per-check accumulator.  Everything is mergeable across worker shards."""

    MAX_REPLAYS_PER_KEY = 3
    MAX_SAMPLES = 6

    def __init__(self, prop, tier, seed, shard=0, nshards=1):
        self.prop = prop
        self.tier = tier
        self.seed = seed
        self.shard = shard
        self.nshards = nshards
        self.cnt = collections.Counter()
        self.sets = collections.defaultdict(set)
        self.maxs = {}
        self.samples = []
        self.violations = []
        self.viol_keys = collections.Counter()
        self.known_hits = collections.Counter()
        self.known, self.fixed = load_known()
        self.inconclusive = []
        self.t0 = env.real_monotonic()

    # ---- counting helpers
    def inc(self, name, n=1):
        self.cnt[name] += n

    def cell(self, family, *key):
        self.cnt[f"{family}:" + "/".join(str(k) for k in key)] += 1

    def add(self, setname, key):
        s = self.sets[setname]
        if len(s) < 2_000_000:
            s.add(key if isinstance(key, str) else json.dumps(jsonable(key), sort_keys=True))

    def add_hash(self, setname, obj):
        s = self.sets[setname]
        if len(s) < 4_000_000:
            s.add(hashlib.blake2b(json.dumps(jsonable(obj), sort_keys=True).encode(), digest_size=8).hexdigest())

    def mx(self, name, v):
        if name not in self.maxs or v > self.maxs[name]:
            self.maxs[name] = v

    def sample(self, obj):
        if len(self.samples) < self.MAX_SAMPLES:
            self.samples.append(jsonable(obj))

    def elapsed(self):
        return env.real_monotonic() - self.t0

    # ---- verdicts
    def viol(self, key, msg, payload):
        """Report a violation with mechanism key `key`.  Known findings are downgraded."""
        if (self.prop, key) in self.known:
            self.known_hits[key] += 1
            return False
        self.viol_keys[key] += 1
        if self.viol_keys[key] <= self.MAX_REPLAYS_PER_KEY:
            path = self._write_replay(key, msg, payload)
            self.violations.append({"key": key, "msg": msg, "replay": path})
        return True

    def _write_replay(self, key, msg, payload):
        d = os.path.join(ROOT, "replays", self.prop)
        os.makedirs(d, exist_ok=True)
        body = json.dumps(jsonable(payload), sort_keys=True)
        h = hashlib.sha1(body.encode()).hexdigest()[:10]
        safe = re.sub(r"[^A-Za-z0-9_.-]", "_", key)[:60]
        path = os.path.join(d, f"{safe}-{h}.json")
        with open(path, "w", encoding="utf-8") as f:
            json.dump(
                {"property": self.prop, "key": key, "msg": msg, "seed": self.seed, "python_optimize": sys.flags.optimize, "payload": jsonable(payload)},
                f,
                indent=1,
                sort_keys=True,
            )
        return os.path.relpath(path, ROOT)

    def inconclusive_because(self, why):
        self.inconclusive.append(why)

    # ---- (de)serialisation for worker shards
    def dump(self):
        return {
            "cnt": dict(self.cnt),
            "sets": {k: sorted(v) for k, v in self.sets.items()},
            "maxs": self.maxs,
            "samples": self.samples,
            "violations": self.violations,
            "viol_keys": dict(self.viol_keys),
            "known_hits": dict(self.known_hits),
            "inconclusive": self.inconclusive,
        }

    def merge(self, d):
        self.cnt.update(d["cnt"])
        for k, v in d["sets"].items():
            self.sets[k].update(v)
        for k, v in d["maxs"].items():
            self.mx(k, v)
        for s in d["samples"]:
            if len(self.samples) < self.MAX_SAMPLES:
                self.samples.append(s)
        self.violations.extend(d["violations"])
        self.viol_keys.update(d["viol_keys"])
        self.known_hits.update(d["known_hits"])
        self.inconclusive.extend(d["inconclusive"])


def write_evidence(ctx: Ctx, *, rule, evaluations, nontrivial, assumptions, extra=None, exhaustive=None):
    cov = {
        "evaluations": int(evaluations),
        "distinct_nontrivial": int(nontrivial),
        "rule": rule,
        "samples": ctx.samples or [{"note": "no sample recorded"}],
        "counters": {k: v for k, v in sorted(ctx.cnt.items()) if ":" not in k},
        "cells": {k: v for k, v in sorted(ctx.cnt.items()) if ":" in k},
        "distinct": {k: len(v) for k, v in sorted(ctx.sets.items())},
        "maxima": jsonable(ctx.maxs),
        "known_finding_hits": dict(ctx.known_hits),
        "inconclusive_reasons": ctx.inconclusive,
        "violation_keys": dict(ctx.viol_keys),
    }
    if exhaustive is not None:
        cov["exhaustive"] = bool(exhaustive)
    if extra:
        cov.update(jsonable(extra))
    ev = {
        "property_id": ctx.prop,
        "tier": ctx.tier,
        "seed": int(ctx.seed),
        "level": level_of(ctx.prop),
        "coverage": cov,
        "assumptions": assumptions,
        "wall_s": round(ctx.elapsed(), 3),
        "violations": int(sum(ctx.viol_keys.values())),
        "repo_root": env.repo_root(),
        "verdict": "violated" if ctx.viol_keys else ("inconclusive" if ctx.inconclusive else "held"),
    }
    # evidence/ is for runs against /repo itself; runs against a scratch copy (VERIF_REPO=..., mutation audit,
    # seeded-change evaluation) must not overwrite it
    evdir = os.path.join(ROOT, "evidence") if os.path.realpath(env.repo_root()) == os.path.realpath("/repo") else os.path.join(ROOT, ".work", "evidence-other-tree")
    os.makedirs(evdir, exist_ok=True)
    path = os.path.join(evdir, f"{ctx.prop}.json")
    tmp = path + ".tmp"
    with open(tmp, "w", encoding="utf-8") as f:
        json.dump(ev, f, indent=1, sort_keys=True)
    os.replace(tmp, path)
    return ev


def validate_evidence(ev):
    """Minimal structural validation mirroring EVIDENCE.schema.json for the two levels used."""
    errs = []
    for k in ("property_id", "tier", "seed", "level", "coverage", "wall_s"):
        if k not in ev:
            errs.append(f"missing {k}")
    if ev.get("tier") not in ("quick", "thorough"):
        errs.append("tier")
    if not isinstance(ev.get("seed"), int):
        errs.append("seed")
    cov = ev.get("coverage", {})
    if ev.get("level") in ("exploration", "fault_enumeration"):
        if not (isinstance(cov.get("evaluations"), int) and cov["evaluations"] >= 1):
            errs.append("evaluations")
        if not (isinstance(cov.get("distinct_nontrivial"), int) and cov["distinct_nontrivial"] >= 2):
            errs.append("distinct_nontrivial")
        if not isinstance(cov.get("rule"), str):
            errs.append("rule")
        if not (isinstance(cov.get("samples"), list) and len(cov["samples"]) >= 1):
            errs.append("samples")
    return errs


def finish(ctx: Ctx, *, rule, evaluations, nontrivial, floors, assumptions, extra=None, exhaustive=None):
    """Apply coverage floors, write evidence, print verdict lines, return the exit code."""
    for name, (have, need) in floors.items():
        if have < need:
            ctx.inconclusive_because(f"coverage floor missed: {name} = {have} < {need}")
    ev = write_evidence(
        ctx,
        rule=rule,
        evaluations=evaluations,
        nontrivial=nontrivial,
        assumptions=assumptions,
        extra=dict(extra or {}, floors={k: {"have": h, "need": n} for k, (h, n) in floors.items()}),
        exhaustive=exhaustive,
    )
    errs = validate_evidence(ev)
    for key, n in sorted(ctx.known_hits.items()):
        print(f"KNOWN-FINDING: property={ctx.prop} mechanism={key} occurrences={n} :: {ctx.known.get((ctx.prop, key), '')}")
    if ctx.viol_keys:
        seen = set()
        for v in ctx.violations:
            if v["replay"] in seen:
                continue
            seen.add(v["replay"])
            print(f"VIOLATION property={ctx.prop} replay={v['replay']}")
            print(f"  [{v['key']}] {v['msg']}")
        print(f"{ctx.prop}: VIOLATED ({sum(ctx.viol_keys.values())} occurrences, keys: {dict(ctx.viol_keys)})")
        return 1
    if ctx.inconclusive or errs:
        for why in ctx.inconclusive:
            print(f"INCONCLUSIVE property={ctx.prop} {why}")
        for e in errs:
            print(f"INCONCLUSIVE property={ctx.prop} evidence invalid: {e}")
        return 2
    print(
        f"{ctx.prop}: held on {evaluations} monitored executions ({nontrivial} distinct non-trivial); "
        f"tier={ctx.tier} seed={ctx.seed} wall={ev['wall_s']}s"
    )
    return 0


def run_sharded(prop, tier, seed, jobs, timeout_s, extra_args=()):
    """Run `jobs` worker processes of this check; return merged Ctx (or None + reason)."""
    ctx = Ctx(prop, tier, seed)
    procs = []
    tmpdir = tempfile.mkdtemp(prefix=f"rv-{prop}-", dir=os.path.join(ROOT, ".work"))
    envv = dict(os.environ)
    envv["PYTHONHASHSEED"] = "0"
    for i in range(jobs):
        out = os.path.join(tmpdir, f"w{i}.json")
        # the last worker runs its share of the workload with asserts stripped (python -O), as optimised deployments do
        opt = ["-O"] if jobs >= 2 and i == jobs - 1 else []
        cmd = [sys.executable, *opt, "-m", "rv.main", prop, "--tier", tier, "--seed", str(seed), "--worker", f"{i}/{jobs}", "--out", out, *extra_args]
        p = subprocess.Popen(cmd, cwd=ROOT, env=envv, stdout=subprocess.PIPE, stderr=subprocess.STDOUT, text=True)
        procs.append((p, out))
    deadline = env.real_monotonic() + timeout_s
    for p, out in procs:
        left = max(1.0, deadline - env.real_monotonic())
        try:
            so, _ = p.communicate(timeout=left)
        except subprocess.TimeoutExpired:
            p.kill()
            so, _ = p.communicate()
            ctx.inconclusive_because(f"worker watchdog fired after {timeout_s}s")
            continue
        if p.returncode != 0 or not os.path.exists(out):
            tail = (so or "").strip().splitlines()[-15:]
            ctx.inconclusive_because(f"worker exited {p.returncode}: " + " | ".join(tail))
            continue
        with open(out, encoding="utf-8") as f:
            ctx.merge(json.load(f))
    for _, out in procs:
        try:
            os.remove(out)
        except OSError:
            pass
    try:
        os.rmdir(tmpdir)
    except OSError:
        pass
    return ctx


def shard_range(total, shard, nshards):
    """Indices of [0,total) assigned to this shard (strided so shards see the same mix)."""
    return range(shard, total, nshards)
