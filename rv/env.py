"""Environment interposition: installed BEFORE `import redress`.

Every primitive the library can use to read time, sleep, or draw randomness is replaced by a
dispatcher that delegates to the real function unless a `World` is active.  While a World is
active:

* time.monotonic / perf_counter / monotonic_ns -> virtual monotonic clock (only the workload moves it)
* time.time / time_ns                          -> hostile wall clock (seeded +-1e9 s jumps)
* time.sleep / asyncio.sleep                   -> recorded as `dsleep` (default sleeper) events that
                                                  advance the virtual clock and never block
* random.uniform / random.random               -> adversarial draw source (when world.draws is set)

Hit counters are kept per World so a run that should have touched the clock and did not is
reported as inconclusive rather than held.
"""

from __future__ import annotations

import asyncio
import os
import random
import sys
import time

_REAL = {
    "monotonic": time.monotonic,
    "perf_counter": time.perf_counter,
    "monotonic_ns": time.monotonic_ns,
    "time": time.time,
    "time_ns": time.time_ns,
    "sleep": time.sleep,
    "asleep": asyncio.sleep,
    "uniform": random.uniform,
    "random": random.random,
}


def real_monotonic() -> float:
    return _REAL["monotonic"]()


class Suspend:
    """Trivial awaitable: one suspension point for the manual coroutine driver."""

    __slots__ = ("tag",)

    def __init__(self, tag: str = "") -> None:
        self.tag = tag

    def __await__(self):
        yield self


class World:
    """Virtual monotonic clock + hostile wall clock + draw source for one run."""

    __slots__ = (
        "t",
        "t0",
        "wall_rng",
        "wall_mode",
        "hits",
        "trace",
        "draws",
        "manual",
        "wall_last",
        "call_t0",
    )

    def __init__(self, wall_seed: int = 0, wall_mode: str = "jump", t0: float = 1024.0) -> None:
        self.t = t0
        self.t0 = t0
        self.call_t0 = t0
        self.wall_rng = random.Random(wall_seed)
        self.wall_mode = wall_mode
        self.wall_last = 1.7e9
        self.hits = {"mono": 0, "wall": 0, "sleep": 0, "asleep": 0, "uniform": 0}
        self.trace = None  # list to which default-sleeper events are appended
        self.draws = None  # callable (a, b) -> float or None
        self.manual = True  # async default sleeper suspends via Suspend (manual driver) or real loop

    def now(self) -> float:
        return self.t - self.t0

    # wall clock: never related to the virtual clock
    def wall(self) -> float:
        self.hits["wall"] += 1
        m = self.wall_mode
        if m == "jump":
            self.wall_last = self.wall_rng.uniform(-1e9, 3e9)
        elif m == "back":
            self.wall_last -= self.wall_rng.uniform(1.0, 1e6)
        elif m == "fwd":
            self.wall_last += self.wall_rng.uniform(1e3, 1e8)
        else:  # frozen
            pass
        return self.wall_last


_ACTIVE: list[World | None] = [None]


def current() -> World | None:
    return _ACTIVE[0]


class active:
    """Context manager activating a World."""

    def __init__(self, world: World) -> None:
        self.world = world
        self.prev = None

    def __enter__(self) -> World:
        self.prev = _ACTIVE[0]
        _ACTIVE[0] = self.world
        return self.world

    def __exit__(self, *exc) -> None:
        _ACTIVE[0] = self.prev


def _mono() -> float:
    w = _ACTIVE[0]
    if w is None:
        return _REAL["monotonic"]()
    w.hits["mono"] += 1
    return w.t


def _perf() -> float:
    w = _ACTIVE[0]
    if w is None:
        return _REAL["perf_counter"]()
    w.hits["mono"] += 1
    return w.t


def _mono_ns() -> int:
    w = _ACTIVE[0]
    if w is None:
        return _REAL["monotonic_ns"]()
    w.hits["mono"] += 1
    return int(w.t * 1e9)


def _wall() -> float:
    w = _ACTIVE[0]
    if w is None:
        return _REAL["time"]()
    return w.wall()


def _wall_ns() -> int:
    w = _ACTIVE[0]
    if w is None:
        return _REAL["time_ns"]()
    return int(w.wall() * 1e9)


def _sleep(s: float) -> None:
    w = _ACTIVE[0]
    if w is None:
        return _REAL["sleep"](s)
    w.hits["sleep"] += 1
    if w.trace is not None:
        w.trace.append(("dsleep", s, w.t - w.call_t0))
    # what the real time.sleep does with values the library should never hand it
    if s != s:
        raise ValueError("Invalid value NaN (not a number)")
    if s < 0:
        raise ValueError("sleep length must be non-negative")
    if s == float("inf"):
        raise OverflowError("timestamp too large to convert to C _PyTime_t")
    if s > 0:
        w.t += s


async def _asleep(delay: float, result=None):
    w = _ACTIVE[0]
    if w is None:
        return await _REAL["asleep"](delay, result)
    w.hits["asleep"] += 1
    if w.trace is not None:
        w.trace.append(("dsleep", delay, w.t - w.call_t0))
    if w.manual:
        await Suspend("dsleep")
    else:
        await _REAL["asleep"](0)
    # the clock moves when the sleep completes
    if delay == delay and delay > 0 and delay != float("inf"):
        w.t += delay
    return result


def _uniform(a: float, b: float) -> float:
    w = _ACTIVE[0]
    if w is None or w.draws is None:
        return _REAL["uniform"](a, b)
    w.hits["uniform"] += 1
    return w.draws(a, b)


def _random() -> float:
    w = _ACTIVE[0]
    if w is None or w.draws is None:
        return _REAL["random"]()
    w.hits["uniform"] += 1
    return w.draws(0.0, 1.0)


_INSTALLED = [False]


def install() -> None:
    """Patch the process environment.  Must run before redress is imported."""
    if _INSTALLED[0]:
        return
    if any(m == "redress" or m.startswith("redress.") for m in sys.modules):
        raise RuntimeError("rv.env.install() must be called before redress is imported")
    time.monotonic = _mono
    time.perf_counter = _perf
    time.monotonic_ns = _mono_ns
    time.time = _wall
    time.time_ns = _wall_ns
    time.sleep = _sleep
    asyncio.sleep = _asleep
    # asyncio.tasks.sleep is what `asyncio.sleep` aliases; keep the internal one real so that
    # the event loop machinery itself (wait_for etc.) is not affected.
    random.uniform = _uniform
    random.random = _random
    _INSTALLED[0] = True


def repo_root() -> str:
    return os.environ.get("VERIF_REPO", "/repo")


def import_redress():
    """Install interposition, put $VERIF_REPO/src first on sys.path, import and verify origin."""
    install()
    src = os.path.join(repo_root(), "src")
    if sys.path[0] != src:
        sys.path.insert(0, src)
    import redress  # noqa: PLC0415

    origin = os.path.realpath(redress.__file__)
    if not origin.startswith(os.path.realpath(src) + os.sep):
        raise RuntimeError(f"redress imported from {origin}, expected under {src}")
    return redress
