"""Scenario generators: random (seeded), small-scope sweep, boundary.

All times are multiples of 1/64 s unless a generator says otherwise: exact as binary floats and
as whole microseconds, so neither float subtraction nor the engine's timedelta rounding
perturbs them.
"""

from __future__ import annotations

import itertools
import random

CLASSES = ["AUTH", "PERMISSION", "PERMANENT", "CONCURRENCY", "RATE_LIMIT", "SERVER_ERROR", "TRANSIENT", "UNKNOWN"]
RETRYABLE = ["CONCURRENCY", "RATE_LIMIT", "SERVER_ERROR", "TRANSIENT", "UNKNOWN"]
G = 1.0 / 64.0
DUR = [0.0, 0.0, G, 0.25, 0.5, 1.0, 2.0]
DEADLINES = [0.0, 0.25, 0.5, 1.0, 2.0, 5.0, 1000.0, 1000.0, 1000.0, 86430.0, 200000.0]  # incl. more than a day
STRAT_VALUES = [0.0, G, 0.25, 0.5, 1.0, 3.0, "nan", "inf", "-inf", -1.0, -0.0, 1e9, 2, 5]
STRAT_VALUES_HUGE = STRAT_VALUES + ["hugeint", 7, 10**30, "-hugeint", -(10**30)]
OVERSHOOT = [0.0, 0.0, 0.0, G, 0.25, 1.0]
EXC_FAMILIES = ("plain", "runtime", "os", "frozen", "empty", "group", "type", "timeout", "poolcancel", "badstr", "emptytimeout", "status", "status", "status")
# ordinary exceptions a caller callback may die with (the type can matter: handlers written for one type catch another by accident)
CB_EXCS = ["RuntimeError", "ValueError", "KeyError", "OverflowError", "ZeroDivisionError", "TypeError", "AttributeError", "OSError"]
SPECIALS_ALL = ["abort", "cancel", "kbd", "sysexit", "nested_exh", "nested_open", "genexit", "base"]


def default_place():
    return {"handler": "none", "before_sleep": "none", "sleeper": "call", "hooks": "none"}


def mk_call(outcomes, *, durations=None, overshoot=None, strat_values=None, abort_at=None, handler=None, gap=0.0):
    n = len(outcomes)
    return {
        "outcomes": outcomes,
        "durations": durations if durations is not None else [0.0] * n,
        "overshoot": overshoot if overshoot is not None else [0.0] * n,
        "strat_values": strat_values if strat_values is not None else [0.0] * n,
        "abort_at": abort_at,
        "handler": handler,
        "gap": gap,
    }


def mk_cfg(**kw):
    cfg = {
        "max_attempts": 3,
        "deadline_s": 1000.0,
        "max_unknown": None,
        "per_class": {},
        "default_strategy": True,
        "class_strategies": [],
        "legacy": [],
        "result_classifier": True,
        "use_classification": False,
        "budget": None,
        "breaker": None,
        "operation": None,
    }
    cfg.update(kw)
    return cfg


def rand_outcome(rng, *, p_ok=0.2, p_exc=0.45, p_special=0.0, specials=("abort",), classes=CLASSES, ra=True):
    r = rng.random()
    if r < p_special:
        name = rng.choice(list(specials))
        if name in ("nested_exh", "nested_open"):
            return ["sp", name, rng.choice(classes + [None]) if name == "nested_exh" else rng.choice(classes)]
        if name in ("cancel", "kbd", "sysexit") and rng.random() < 0.3:
            name += "_exc"  # an application class deriving from the cancellation type AND from Exception
        return ["sp", name]
    r = rng.random()
    # a hint of 0 ("Retry-After: 0": come back at once) is a hint like any other; so is an int; a negative one is the classifier's business
    hint = rng.choice([None, None, None, None, 0.5, 0.5, 3.0, 3.0, 0, 0.0, 2, -1.0]) if ra else None
    if r < p_ok:
        return ["ok"]
    if r < p_ok + p_exc:
        return ["exc", rng.choice(classes), hint]
    return ["res", rng.choice(classes), hint]


def rand_scenario(
    rng: random.Random,
    *,
    max_attempts=(1, 6),
    p_special=0.0,
    specials=("abort",),
    p_budget=0.3,
    p_breaker=0.0,
    p_handler=0.3,
    p_abort=0.2,
    p_before_sleep=0.5,
    ncalls=(1, 1),
    timing=True,
    nonretry_bias=True,
    classes=None,
    p_no_sleeper=0.1,
    hooks=True,
    placements=False,
    p_bogus_handler=0.0,
    p_abort_flag=0.0,
    slow_hooks=False,
    exotic_callables=False,
    p_strategy_objects=0.0,
    rf_time=False,
    p_via_config=0.0,
    p_exc_same=0.0,
    p_attempt_timeout=0.0,
    p_res_none=0.0,
    falsy_objects=False,
    poll_kinds=False,
    p_empty_table=0.0,
    call_kw_drops=False,
    p_via_attrs=0.0,
):
    n = rng.randint(*max_attempts)
    nout = n + 1
    classes = classes or (RETRYABLE * 3 + CLASSES if nonretry_bias else CLASSES)
    per_class = {k: rng.randint(0, 3) for k in rng.sample(CLASSES, rng.choice([0, 0, 1, 2, 3]))}
    cs = rng.sample(CLASSES, rng.choice([0, 0, 1, 2, 4]))
    default = rng.random() < 0.85 or not cs
    if p_empty_table and rng.random() < p_empty_table:
        cs, default = [], False  # strategies={} and no default: every retryable class lacks a strategy
    legacy = [x for x in (["default"] + cs) if rng.random() < 0.25]
    budget = None
    if rng.random() < p_budget:
        mr = rng.randint(0, 4)
        budget = {"max": mr, "window": rng.choice([1.0, 10.0, 1000.0]), "prefill": rng.randint(0, mr)}
    breaker = None
    if rng.random() < p_breaker:
        breaker = rand_breaker(rng)
    cfg = mk_cfg(
        max_attempts=n,
        deadline_s=rng.choice(DEADLINES) if timing else 1000.0,
        max_unknown=rng.choice([None, 0, 1, 2, 3]),
        per_class=per_class,
        default_strategy=default,
        class_strategies=cs,
        legacy=legacy,
        result_classifier=rng.random() < 0.9,
        use_classification=rng.random() < 0.5,
        budget=budget,
        breaker=breaker,
        operation=rng.choice([None, "opname"]),
    )
    if p_attempt_timeout and rng.random() < p_attempt_timeout:
        # configured but never allowed to fire (that would depend on real time): half a minute, or "effectively none" spelled as a
        # huge / infinite number of seconds
        cfg["attempt_timeout"] = rng.choice([30.0, 30.0, 30.0, 1.0e10, float("inf")])
    if p_strategy_objects and rng.random() < p_strategy_objects:
        cand = [x for x in (["default"] if default else []) + cs if x not in legacy]
        cfg["strategy_objects"] = [x for x in cand if rng.random() < 0.7]
        if falsy_objects:
            cfg["strategy_objects_falsy"] = [x for x in cfg["strategy_objects"] if rng.random() < 0.5]
    if falsy_objects and cfg["budget"] and rng.random() < 0.3:
        cfg["budget"]["falsy"] = True
    if falsy_objects and cfg["breaker"] and rng.random() < 0.3:
        cfg["breaker"]["falsy"] = True
    place = default_place()
    has_handler = rng.random() < p_handler
    if has_handler:
        place["handler"] = rng.choice(["call", "policy", "both"]) if placements else "call"
    if rng.random() < p_before_sleep:
        place["before_sleep"] = rng.choice(["call", "policy", "both"]) if placements else "call"
    if placements:
        place["sleeper"] = rng.choice(["call", "policy", "both", "none"])
    elif rng.random() < p_no_sleeper:
        place["sleeper"] = "none"
    if hooks and rng.random() < 0.4:
        place["hooks"] = rng.choice(["call", "policy", "both"])
    calls = []
    for _ in range(rng.randint(*ncalls)):
        outs = [rand_outcome(rng, p_special=p_special, specials=specials, classes=classes) for _ in range(nout)]
        if rng.random() < 0.3:
            # long failing runs exercise the caps
            for i in range(nout - 1):
                if outs[i][0] == "ok":
                    outs[i] = ["exc", rng.choice(RETRYABLE), None]
        if p_res_none and rng.random() < p_res_none:
            for j in range(nout):
                if outs[j][0] == "res" and rng.random() < 0.6:
                    outs[j] = ["res_none", outs[j][1], outs[j][2]]
        if p_exc_same and rng.random() < p_exc_same:
            # a client that re-raises one cached exception instance on consecutive attempts
            j0 = rng.randrange(max(1, nout - 1))
            for j in range(j0, min(nout, j0 + rng.randint(2, 3))):
                outs[j] = ["exc_same", rng.choice(RETRYABLE), rng.choice([None, 0.5, 3.0])]
        handler = None
        if has_handler:
            pool = ["sleep", "sleep", "sleep", "defer", "abort"]
            if p_bogus_handler and rng.random() < p_bogus_handler:
                pool = pool + ["bogus", "bogus:sleep", "bogus:defer", "bogus:abort"]
            handler = [rng.choice(pool) for _ in range(nout)]
        if p_abort_flag and rng.random() < p_abort_flag:
            extra_abort = rng.randint(1, n)
        else:
            extra_abort = None
        calls.append(
            mk_call(
                outs,
                durations=[rng.choice(DUR) if timing else 0.0 for _ in range(nout)],
                overshoot=[rng.choice(OVERSHOOT) if timing else 0.0 for _ in range(nout)],
                strat_values=[rng.choice(STRAT_VALUES) for _ in range(nout)],
                abort_at=rng.randint(0, 3 * n + 1) if rng.random() < p_abort else None,
                handler=handler,
                gap=rng.choice([0.0, 0.0, G, 1.0, 10.0]) if timing else 0.0,
            )
        )
        calls[-1]["abort_after_op"] = extra_abort
        if extra_abort is not None:
            calls[-1]["abort_at"] = None
        if call_kw_drops and len(calls) > 1 and rng.random() < 0.5:
            # a later call on the same object that passes fewer per-call sleep arguments than the one before it
            calls[-1]["drop_call_kw"] = rng.sample(["sleep", "before_sleep", "sleeper"], rng.randint(1, 3))
        if rf_time and cfg.get("strategy_objects"):
            calls[-1]["rf_dur"] = [rng.choice([0.0, 0.0, G, 0.25, 1.0]) for _ in range(nout)]
        if slow_hooks:
            calls[-1]["handler_dur"] = [rng.choice([0.0, 0.0, G, 0.25]) for _ in range(nout)]
            calls[-1]["bs_dur"] = [rng.choice([0.0, 0.0, G, 0.25]) for _ in range(nout)]
    return _finish({
        "cfg": cfg,
        "place": place,
        "bs_kind": rng.choice(["sync", "async", "lambda"] if exotic_callables else ["sync", "async"]),
        "sleeper_kind": rng.choice(["async", "sync", "lambda", "callable", "falsy"] if exotic_callables else ["async", "async", "sync"]),
        "timeline": rng.choice([False, True, "obj", "objshared"]),
        "via_config": bool(p_via_config and rng.random() < p_via_config),
        "via_attrs": bool(p_via_attrs and rng.random() < p_via_attrs),  # configured by assigning public attributes after construction
        "poll_kind": rng.choice(["bool", "int", "str", "obj"]) if poll_kinds else "bool",
        "poll": rng.random() < 0.15,
        "ctx_decoy": rng.random() < 0.35,  # context-manager entries only: a second context object alive at the same time
        "calls": calls,
        "fault": None,
        # what kind of object the operation's errors are (drawn last: the scenarios generated before this existed keep their shape)
        "exc_family": rand_exc_family(rng),
        # what kind of object the caller's callbacks are: plain functions, or callable objects that are empty (falsy) and unhashable
        "cb_shape": (lambda r_: "empty" if r_ < 0.2 else "stateful" if r_ < 0.4 else "plain")(rng.random()),
        "hook_edits_tags": rng.random() < 0.25,  # the metric hook writes a label into the tags dict it receives
        "warnings_as_errors": rng.random() < 0.15,  # the process escalates warnings to errors
        "op_cm": rng.random() < 0.2,  # the operation works inside a generator-based context manager / ExitStack
        "val_kind": "odd" if rng.random() < 0.2 else "plain",  # success values that are awaitable objects, rejected results without a repr
        "hook_set": rng.choice(["both"] * 6 + ["log", "metric"]),  # which observability sinks the caller attaches
        # the operation's errors are raised while handling, or `from`, another error (a rejected inner circuit, a timeout underneath)
        "abort_origin": rng.choice(["direct", "direct", "nested"]),  # an AbortRetryError raised by the operation itself, or by a policy nested in it
        "exc_chain": rng.choice([None] * 8 + ["open_context", "timeout_cause", "open_cause", "abort_context", "scripted_cause", "scripted_cause"]),
        "rely_on_defaults": rng.random() < 0.08,
        "state_reader": rng.random() < 0.35,  # the breaker's public `state` is read between calls
        "ctx_block_shared": rng.random() < 0.4,  # context-manager entries: one block around all calls of the scenario, or one per call
    })


def _finish(sc):
    if sc.get("ctx_block_shared"):
        # the arguments are bound once, when the block is entered: no call inside it passes fewer
        for c in sc["calls"]:
            c.pop("drop_call_kw", None)
    if sc.pop("rely_on_defaults", False) and not sc["cfg"].get("no_retry"):
        rely_on_defaults(sc)
    return sc


def rely_on_defaults(sc):
    """The caller passes no limits: the documented defaults are the configuration (README / docs/usage: deadline_s=60, max_attempts=6,
    max_unknown_attempts=2 for every way of building a policy)."""
    cfg = sc["cfg"]
    cfg["deadline_s"] = 60.0
    cfg["max_attempts"] = 6
    cfg["max_unknown"] = 2
    cfg["omit_limits"] = True
    for c in sc["calls"]:
        c.pop("set", None)
        if c.get("abort_at") is not None:
            c["abort_at"] = min(c["abort_at"], 12)
    return sc


def rand_exc_family(rng):
    if rng.random() < 0.6:
        return ["plain"]
    return [rng.choice(EXC_FAMILIES) for _ in range(rng.choice([1, 1, 2, 3]))]


def rand_breaker(rng):
    trip = rng.sample(CLASSES, rng.randint(1, 5))
    ct = {}
    if rng.random() < 0.4:
        for k in rng.sample(CLASSES, rng.randint(1, 2)):
            ct[k] = rng.randint(1, 3)
    r_ = rng.random()
    trip_cfg = trip
    if r_ < 0.12:
        trip_cfg = None  # library default {TRANSIENT, SERVER_ERROR}
        trip = ["TRANSIENT", "SERVER_ERROR"]
    elif r_ < 0.2 and ct:
        trip_cfg = []  # trip only through class thresholds
        trip = sorted(ct)
    # seconds to a minute, and the minutes-to-a-day timeouts of services that recover slowly
    window, recovery = rng.choice([(1.0, 5.0), (10.0, 5.0), (5.0, 5.0), (2.0, 1.0), (1.0, 5.0), (10.0, 5.0), (60.0, 600.0), (3600.0, 900.0), (30.0, 86400.0)])
    pre = []
    init = rng.choice(["closed", "closed", "near", "open", "expired", "halfopen", "probing"])
    th = rng.randint(1, 3)
    k0 = trip[0]
    if init == "near":
        pre = [["fail", k0]] * (th - 1)
    elif init == "open":
        pre = [["fail", k0]] * th
    elif init == "expired":
        pre = [["fail", k0]] * th + [["adv", recovery]]
    elif init == "probing":
        # half-open with another caller's probe still in flight: every call through the policy is rejected in state half_open
        pre = [["fail", k0]] * th + [["adv", recovery + G], ["allow"]]
    elif init == "halfopen":
        pre = [["fail", k0]] * th + [["adv", recovery], ["allow"], ["success"]] if rng.random() < 0.3 else [["fail", k0]] * th + [["adv", recovery + G]]
    return {
        "threshold": th,
        "window": window,
        "recovery": recovery,
        "trip_on": trip_cfg,
        "effective_trip_on": sorted(set(trip) | set(ct)),
        "class_thresholds": ct,
        "pre": pre,
        "epoch": rng.choice([0, 0, 0, 0, 0, 2.0**20, 2.0**24]),
    }


# --------------------------------------------------------------------------- small-scope sweep

SWEEP_ALPHABET = ["TRANSIENT", "UNKNOWN", "PERMANENT"]


def sweep_outcome_strings(max_len=4, alphabet=SWEEP_ALPHABET):
    """All outcome strings up to max_len over {ok, exc K, res K}."""
    syms = [["ok"]] + [["exc", k, None] for k in alphabet] + [["res", k, None] for k in alphabet]
    for n in range(1, max_len + 1):
        for combo in itertools.product(syms, repeat=n):
            yield [list(c) for c in combo]


def sweep_cap_grid():
    """Grid of cap configurations for the small-scope sweep."""
    for max_attempts in (1, 2, 3, 4):
        for max_unknown in (None, 0, 1, 2):
            for lim_t in (None, 0, 1, 2):
                for lim_u in (None, 1):
                    pc = {}
                    if lim_t is not None:
                        pc["TRANSIENT"] = lim_t
                    if lim_u is not None:
                        pc["UNKNOWN"] = lim_u
                    yield {"max_attempts": max_attempts, "max_unknown": max_unknown, "per_class": pc}


def sweep_scenarios(max_len=4, stride=1, offset=0, **cfg_extra):
    """Bounded-exhaustive: every outcome string x every cap configuration (optionally strided)."""
    i = 0
    for caps in sweep_cap_grid():
        for outs in sweep_outcome_strings(max_len):
            if len(outs) < min(caps["max_attempts"], max_len) and outs[-1][0] != "ok":
                # shorter strings are only interesting when they end the run; keep cyclic ones too
                pass
            i += 1
            if (i - offset) % stride:
                continue
            cfg = mk_cfg(**caps, **cfg_extra)
            yield {
                "cfg": cfg,
                "place": default_place(),
                "bs_kind": "sync",
                "sleeper_kind": "async",
                "timeline": False,
                "poll": False,
                "calls": [mk_call(outs)],
                "fault": None,
            }


def boundary_timing_scenarios(rng, n=1):
    """Deadline boundary scenarios: attempts ending exactly at / one step before / after the
    deadline, strategy asking exactly / more than the remainder, overshoot, off-grid offsets."""
    out = []
    for _ in range(n):
        deadline = rng.choice([0.0, 0.25, 0.5, 1.0, 2.0])
        k = rng.randint(1, 4)
        offs = rng.choice([0.0, 0.0, G, -G, 3e-7, -3e-7, 7e-7, -7e-7, 3e-6, -3e-6, 1e-3, -1e-3])
        # durations that sum to the deadline (+offs) at attempt k
        base = deadline / k if k else 0.0
        base = round(base * 64) / 64.0
        durs = [base] * k
        durs[-1] = max(0.0, deadline - base * (k - 1) + offs)
        durs += [rng.choice([0.0, G])] * 3
        sv = []
        for _ in range(k + 3):
            sv.append(rng.choice([0.0, 0.0, G, deadline, deadline + G, max(0.0, deadline - base), 1e9, "inf", deadline / 2]))
        overs = [rng.choice([0.0, 0.0, 3e-7, 7e-7, 3e-6, G, 1.0]) for _ in range(k + 3)]
        mode = rng.choice(["dur", "sleep"])
        if mode == "sleep":
            durs = [0.0] * (k + 3)
        outs = [[rng.choice(["exc", "res"]), rng.choice(RETRYABLE[:4]), None] for _ in range(k + 3)]
        if rng.random() < 0.3:
            outs[rng.randrange(len(outs))] = ["ok"]
        cfg = mk_cfg(max_attempts=rng.randint(1, 6), deadline_s=deadline, max_unknown=None)
        place = default_place()
        if rng.random() < 0.2:
            place["sleeper"] = "none"
        out.append(
            {
                "cfg": cfg,
                "place": place,
                "bs_kind": "sync",
                "sleeper_kind": "async",
                "timeline": False,
                "poll": False,
                "calls": [mk_call(outs, durations=durs, overshoot=overs, strat_values=sv)],
                "fault": None,
            }
        )
    return out


def crossing_scenarios(rng, n=1):
    """The monotonic clock crosses (or lands exactly on) the deadline INSIDE one particular callback of the failure-handling /
    backoff phase - the sleep handler, the before_sleep hook or a strategy object's record_failure() - i.e. between two clock
    reads of the engine that are normally one instant apart.  Every handler decision (sleep / defer / abort) occurs."""
    out = []
    for _ in range(n):
        D = rng.choice([0.5, 1.0, 2.0, 5.0])
        sc = rand_scenario(rng, max_attempts=(2, 4), p_special=0.0, p_budget=0.1, p_handler=0.85, p_abort=0.1, p_before_sleep=0.7, ncalls=(1, 1), placements=False,
                           p_strategy_objects=0.6, slow_hooks=True, rf_time=True, nonretry_bias=True)
        cfg = sc["cfg"]
        cfg["deadline_s"] = D
        cfg["max_unknown"] = None
        cfg["per_class"] = {}
        c = sc["calls"][0]
        m = len(c["outcomes"])
        kth = rng.randrange(0, min(2, m))  # the failed attempt during whose handling the clock crosses
        for i in range(m - 1):
            c["outcomes"][i] = [rng.choice(["exc", "res"]), rng.choice(RETRYABLE[:4]), None]
        step = round(D / (2 * (kth + 1)) * 64) / 64.0
        c["durations"] = [step] * m  # attempt kth ends at about D/2
        c["overshoot"] = [0.0] * m
        c["strat_values"] = [rng.choice([0.0, G, 0.25, D, D * 4]) for _ in range(m)]
        spent = step * (kth + 1)
        push = max(0.0, D - spent + rng.choice([-G, 0.0, 0.0, G, 0.25, 3e-7, -3e-7]))
        where = rng.choice(["handler", "before_sleep", "record_failure"])
        c["handler_dur"] = [0.0] * m
        c["bs_dur"] = [0.0] * m
        c["rf_dur"] = [0.0] * m
        if where == "record_failure" and not cfg.get("strategy_objects"):
            cfg["strategy_objects"] = ["default"] + list(cfg.get("class_strategies", ()))
            cfg["legacy"] = []
        if where == "handler" and sc["place"]["handler"] == "none":
            sc["place"]["handler"] = "call"
            c["handler"] = [rng.choice(["sleep", "defer", "abort"]) for _ in range(m)]
        if where == "before_sleep" and sc["place"]["before_sleep"] == "none":
            sc["place"]["before_sleep"] = "call"
        if kth > 0 and c.get("handler"):
            for i in range(kth):
                c["handler"][i] = "sleep"
        key = {"handler": "handler_dur", "before_sleep": "bs_dur", "record_failure": "rf_dur"}[where]
        c[key][kth] = push
        if where != "record_failure":
            c.pop("rf_dur", None) if not cfg.get("strategy_objects") else None
        sc["crossing"] = where
        out.append(sc)
    return out
