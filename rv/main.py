"""Launcher: ./check <property> --tier quick|thorough [--seed N] | --replay <file> | --selftest"""

from __future__ import annotations

import argparse
import faulthandler
import importlib
import json
import os
import sys

from . import env

env.install()

from . import core  # noqa: E402

PROPS = [f"C{i:02d}" for i in range(1, 21)]


def load(prop):
    return importlib.import_module(f"rv.checks.{prop.lower()}")


def selftest():
    """setup_cmd: verify interpreter, import root, interposition and evidence plumbing."""
    ok = True
    r = env.import_redress()
    print("redress from", r.__file__)
    if sys.version_info < (3, 12):
        print("need python >= 3.12 (sys.monitoring)")
        ok = False
    import time

    w = env.World()
    with env.active(w):
        a = time.monotonic()
        time.sleep(2.0)
        b = time.monotonic()
        wall = [time.time() for _ in range(3)]
    if not (b - a == 2.0 and w.hits["sleep"] == 1 and len(set(wall)) == 3):
        print("interposition broken", a, b, w.hits, wall)
        ok = False
    from redress import CircuitBreaker, ErrorClass

    with env.active(w):
        br = CircuitBreaker(failure_threshold=1, recovery_timeout_s=5.0)
        br.record_failure(ErrorClass.TRANSIENT)
        r1 = br.allow().allowed
        w.t += 5.0
        r2 = br.allow().allowed
    if r1 or not r2:
        print("default clock argument not virtualised", r1, r2)
        ok = False
    missing = []
    for p in PROPS:
        try:
            load(p)
        except ModuleNotFoundError as e:
            if f"rv.checks.{p.lower()}" in str(e):
                missing.append(p)
            else:
                raise
    man = json.load(open(os.path.join(core.ROOT, "MANIFEST.json"), encoding="utf-8"))
    claimed = {c["property_id"] for c in man["checks"]}
    if claimed & set(missing):
        print("claimed but not implemented:", sorted(claimed & set(missing)))
        ok = False
    os.makedirs(os.path.join(core.ROOT, "evidence"), exist_ok=True)
    print("selftest", "ok" if ok else "FAILED", "| checks implemented:", len(PROPS) - len(missing))
    return 0 if ok else 1


def _verbose_logging():
    """Process-level logging as a debugging session has it: DEBUG everywhere, every record really formatted (so a `%r` of a
    component is evaluated at the log call), output discarded."""
    import logging

    class Discard(logging.Handler):
        def emit(self, record):
            self.format(record)

    h = Discard()
    h.setFormatter(logging.Formatter("%(asctime)s %(name)s %(levelname)s %(message)s"))
    logging.basicConfig(level=logging.DEBUG, handlers=[h], force=True)


def main(argv=None):
    ap = argparse.ArgumentParser(prog="check")
    ap.add_argument("prop", nargs="?")
    ap.add_argument("--tier", default=os.environ.get("VERIF_TIER") or "quick", choices=["quick", "thorough"])
    ap.add_argument("--seed", type=int, default=int(os.environ.get("VERIF_SEED") or 0))
    ap.add_argument("--jobs", type=int, default=None)
    ap.add_argument("--worker", default=None, help="i/n (internal)")
    ap.add_argument("--out", default=None)
    ap.add_argument("--replay", default=None)
    ap.add_argument("--selftest", action="store_true")
    a = ap.parse_args(argv)
    if a.selftest:
        return selftest()
    if not a.prop:
        ap.error("property id required")
    prop = a.prop.upper()
    mod = load(prop)
    if a.replay:
        path = a.replay if os.path.isabs(a.replay) else os.path.join(core.ROOT, a.replay)
        data = json.load(open(path, encoding="utf-8"))
        if data.get("python_optimize") and not sys.flags.optimize:
            # recorded by the worker that runs with asserts stripped: replay under the same interpreter mode
            os.execv(sys.executable, [sys.executable, "-O", "-m", "rv.main", prop, "--replay", path])
        _verbose_logging()
        return mod.replay(data)
    if a.worker:
        i, n = (int(x) for x in a.worker.split("/"))
        faulthandler.enable()
        _verbose_logging()
        ctx = core.Ctx(prop, a.tier, a.seed, i, n)
        ctx.inc("workers_with_asserts_stripped(-O)", 1 if sys.flags.optimize else 0)
        mod.work(ctx, a.tier)
        with open(a.out, "w", encoding="utf-8") as f:
            json.dump(ctx.dump(), f)
        return 0
    jobs = a.jobs or getattr(mod, "JOBS", {"quick": 4, "thorough": 16})[a.tier]
    timeout = getattr(mod, "TIMEOUT", {"quick": 300, "thorough": 3600})[a.tier]
    os.makedirs(os.path.join(core.ROOT, ".work"), exist_ok=True)
    print(f"{prop}: tier={a.tier} seed={a.seed} jobs={jobs} repo={env.repo_root()}")
    sys.stdout.flush()
    if jobs <= 1:
        ctx = core.Ctx(prop, a.tier, a.seed, 0, 1)
        mod.work(ctx, a.tier)
    else:
        ctx = core.run_sharded(prop, a.tier, a.seed, jobs, timeout)
    ctx.tier = a.tier
    kw = mod.conclude(ctx)
    return core.finish(ctx, **kw)


if __name__ == "__main__":
    sys.exit(main())
