"""Small, sequential, deliberately dumb reference models (the specifications of C06/C07/C10).

Both are set-valued at exact boundary ages: an entry whose age equals the window, or an open
circuit whose age equals the recovery timeout, may be treated either way (the property texts do
not pin the equality instant); everything one grid step away is determinate.
"""

from __future__ import annotations

import math


class BreakerModel:
    """Transcribes C06/C07.  step_* return the SET of allowed observable results."""

    def __init__(self, *, threshold, window, recovery, trip_on, class_thresholds=None):
        self.threshold = threshold
        self.window = window
        self.recovery = recovery
        self.class_thresholds = dict(class_thresholds or {})
        self.trip_on = set(trip_on) | set(self.class_thresholds)
        self.mode = "closed"
        self.opened_at = None
        self.probe = False
        self.fails = []  # (time, class) since the last open/close transition
        self.dont_care = 0

    # counted failures in the window ending at `now`: returns (definitely, possibly) counts
    def _counts(self, now, klass=None):
        lo = hi = 0
        for t, k in self.fails:
            if klass is not None and k != klass:
                continue
            age = now - t
            if age < self.window:
                lo += 1
                hi += 1
            elif age == self.window:
                hi += 1  # exact boundary: don't-care
        return lo, hi

    def allow(self, now):
        """-> set of allowed (allowed, state) pairs; advances the model (forking is avoided by
        returning the set and letting `commit_allow` pick the observed branch)."""
        if self.mode == "closed":
            return {(True, "closed")}
        if self.mode == "open":
            age = now - self.opened_at
            if age > self.recovery:
                return {(True, "half_open")}
            if age == self.recovery:
                return {(True, "half_open"), (False, "open")}
            return {(False, "open")}
        # half-open
        if self.probe:
            return {(False, "half_open")}
        return {(True, "half_open")}

    def commit_allow(self, now, observed):
        allowed, state = observed
        if self.mode == "open" and allowed:
            self.mode = "half_open"
            self.probe = True
        elif self.mode == "half_open" and allowed:
            self.probe = True

    def success(self, now):
        if self.mode == "half_open":
            self.mode = "closed"
            self.opened_at = None
            self.probe = False
            self.fails = []
            return {"circuit_closed"}
        return {None}

    def cancel(self, now):
        if self.mode == "half_open":
            self.probe = False
        return {None}

    def failure(self, now, klass):
        """-> set of allowed return values; `commit_failure` applies the observed one."""
        if self.mode == "half_open":
            return {"circuit_opened"}
        if self.mode == "open":
            return {None}
        if klass not in self.trip_on:
            return {None}
        lo, hi = self._counts(now)
        lo += 1
        hi += 1
        opens_lo = lo >= self.threshold
        opens_hi = hi >= self.threshold
        ct = self.class_thresholds.get(klass)
        if ct is not None:
            clo, chi = self._counts(now, klass)
            opens_lo = opens_lo or clo + 1 >= ct
            opens_hi = opens_hi or chi + 1 >= ct
        if opens_lo:
            return {"circuit_opened"}
        if opens_hi:
            return {"circuit_opened", None}
        return {None}

    def commit_failure(self, now, klass, observed):
        if self.mode == "half_open" or observed == "circuit_opened":
            if self.mode != "open":
                self.mode = "open"
                self.opened_at = now
                self.probe = False
                self.fails = []
            return
        if self.mode == "closed" and klass in self.trip_on:
            self.fails.append((now, klass))
            # forget entries that can no longer matter
            self.fails = [(t, k) for t, k in self.fails if now - t <= self.window]

    def abstract(self, now):
        lo, hi = self._counts(now)
        rel = "-"
        if self.mode == "open":
            age = now - self.opened_at
            rel = "<" if age < self.recovery else "=" if age == self.recovery else ">"
        return (self.mode, lo, hi - lo, self.probe, rel)


class BudgetModel:
    """Sliding-window retry budget: grant iff live + cost <= max, live = grants of age < window."""

    def __init__(self, max_retries, window):
        self.max = max_retries
        self.window = window
        self.grants = []  # times, one per token

    def _cmp(self, now, t):
        """-1: younger than the window, 0: at the boundary, +1: older. "At the boundary" includes ages that differ from the window by
        rounding only: the library compares `stamp <= now - window`, the model `now - stamp` with `window`, and for readings that are not
        dyadic the two subtractions round differently (a few ulps of the clock reading)."""
        age = now - t
        try:
            tol = 4 * math.ulp(max(abs(float(now)), abs(float(t)), abs(float(self.window))))
        except (OverflowError, TypeError, ValueError):
            tol = 0
        if abs(age - self.window) <= tol:
            return 0
        return -1 if age < self.window else 1

    def live(self, now):
        lo = hi = 0
        for t in self.grants:
            c = self._cmp(now, t)
            if c < 0:
                lo += 1
                hi += 1
            elif c == 0:
                hi += 1
        return lo, hi

    def consume(self, now, cost):
        lo, hi = self.live(now)
        ok_lo = lo + cost <= self.max  # most permissive reading (boundary tokens expired)
        ok_hi = hi + cost <= self.max  # least permissive reading
        if ok_lo and ok_hi:
            return {True}
        if not ok_lo and not ok_hi:
            return {False}
        return {True, False}

    def commit(self, now, cost, observed):
        lo, hi = self.live(now)
        if observed and hi + cost > self.max:
            # granted although the boundary tokens, if still live, would have filled the window:
            # the implementation treated them as expired
            self.grants = [t for t in self.grants if self._cmp(now, t) < 0]
        else:
            # otherwise the observation does not tell; tokens of age == window stay ambiguous for this instant
            self.grants = [t for t in self.grants if self._cmp(now, t) <= 0]
        if observed:
            self.grants.extend([now] * cost)

    def remaining(self, now):
        lo, hi = self.live(now)
        return {max(self.max - lo, 0), max(self.max - hi, 0)}
