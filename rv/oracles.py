"""Oracles over one call's boundary trace.  Each yields (mechanism_key, message) pairs.

They never predict order beyond what a property states; when several stop conditions hold any
of them is accepted; instants within 1 us of the deadline are don't-care (the engine compares
timedeltas, i.e. microsecond resolution).
"""

from __future__ import annotations

import math

from .rig import CANCEL_KINDS, NONRETRY
from .view import BREAKER_EVENTS, EVENT_REASON, TERMINALS, TOL, View, num

WORK_KINDS = ("op", "sleep", "dsleep", "strategy", "classify", "rclassify", "budget", "handler", "before_sleep")


def tname(x):
    return type(x).__name__


# =============================================================================== C01
def o_caps(v: View):
    cfg = v.cfg
    if v.nops > cfg["max_attempts"]:
        yield "global-cap", f"{v.nops} invocations > max_attempts={cfg['max_attempts']}"
    granted = {}
    n = len(v.segs)
    for j, s in enumerate(v.segs):
        if s.kind in ("exc", "res") and j + 1 < n:
            if s.klass in NONRETRY:
                yield "nonretryable-retried", f"attempt {s.i} failed with {s.klass} ({s.cause}) and attempt {s.i + 1} was invoked"
            granted[s.klass] = granted.get(s.klass, 0) + 1
    for k, lim in (cfg.get("per_class") or {}).items():
        if granted.get(k, 0) > lim:
            yield "per-class-cap", f"{granted[k]} retries granted after {k} failures > per_class_max_attempts={lim}"
    mu = cfg.get("max_unknown")
    if mu is not None and granted.get("UNKNOWN", 0) > mu:
        yield "unknown-cap", f"{granted['UNKNOWN']} retries granted after UNKNOWN failures > max_unknown_attempts={mu}"


# =============================================================================== C02
def o_envelope(v: View):
    dl = v.deadline
    for s in v.segs[1:]:
        if s.t_op > dl + TOL:
            yield "attempt-after-deadline", f"attempt {s.i} began at elapsed {s.t_op!r} > deadline {dl!r}"
    total = 0.0
    t_fixed = None  # when the delay of the pending retry was fixed (the strategy call)
    for ev in v.trace:
        if ev[0] == "strategy":
            t_fixed = ev[10]
            continue
        if ev[0] == "sleep":
            d, t = ev[2], ev[3]
        elif ev[0] == "dsleep":
            d, t = ev[1], ev[2]
        else:
            continue
        if not (d <= dl - t + TOL):
            if t_fixed is not None and t > t_fixed and d <= dl - t_fixed + TOL:
                # KF5: the delay fitted when it was fixed; the clock then advanced inside the sleep handler / before_sleep hook and the
                # engine asked for the unchanged delay
                yield "delay-fixed-before-a-slow-sleep-handler-or-before_sleep-hook-is-slept-unchanged", (
                    f"sleep of {d!r}s requested at elapsed {t!r} with deadline {dl!r} (remaining {dl - t!r}); the delay was fixed at elapsed {t_fixed!r} "
                    f"and {t - t_fixed!r}s then passed inside the sleep handler / before_sleep hook")
            else:
                yield "sleep-exceeds-remaining", f"sleep of {d!r}s requested at elapsed {t!r} with deadline {dl!r} (remaining {dl - t!r})"
        if d == d:
            total += d
    if total > dl + TOL:
        yield "total-sleep-exceeds-deadline", f"total requested sleep {total!r} > deadline {dl!r}"
    n = len(v.segs)
    for j, s in enumerate(v.segs):
        if s.kind in ("exc", "res") and s.t_fail >= dl and j + 1 < n:
            yield "retried-after-deadline", f"attempt {s.i} failed at elapsed {s.t_fail!r} >= deadline {dl!r} and was retried"


# =============================================================================== C03
def reason_holds(v: View, reason, s):
    """Does the stop condition named `reason` hold for final failed segment s (None if no failure)?"""
    cfg = v.cfg
    if reason == "ABORTED":
        if v.pre_poll_true:
            return True
        if any(e[0] == "poll" and e[2] for e in v.trace):
            return True
        if any(e[0] == "fault" and e[2] == "AbortRetryError" for e in v.trace):
            return True  # a callback raised the cooperative-abort exception
        for x in v.segs:
            if x.poll_true:
                return True
            if any(h[4] == "abort" for h in x.handlers):
                return True
            if x.kind == "sp" and x.out[1] == "abort":
                return True
        return False
    if s is None:
        return False
    if reason == "NON_RETRYABLE_CLASS":
        return s.klass in NONRETRY
    if reason == "MAX_ATTEMPTS_PER_CLASS":
        lim = (cfg.get("per_class") or {}).get(s.klass)
        return lim is not None and s.count_k > lim
    if reason == "MAX_UNKNOWN_ATTEMPTS":
        mu = cfg.get("max_unknown")
        return s.klass == "UNKNOWN" and mu is not None and s.count_u > mu
    if reason == "DEADLINE_EXCEEDED":
        if s.t_decide >= v.deadline - TOL:
            return True
        ta = v.sleep_end_time(s)
        return ta is not None and ta > v.deadline - TOL
    if reason == "NO_STRATEGY":
        return not v.strategy_exists(s.klass)
    if reason == "BUDGET_EXHAUSTED":
        return any(c[2] is False for c in s.consumes) or s.budget_full
    if reason == "MAX_ATTEMPTS_GLOBAL":
        return s.i >= cfg["max_attempts"]
    if reason == "SCHEDULED":
        return any(h[4] == "defer" for h in s.handlers)
    return False


def o_permit(v: View, stats=None):
    cfg = v.cfg
    n = len(v.segs)
    budget_cfg = cfg.get("budget") is not None
    for j, s in enumerate(v.segs):
        has_next = j + 1 < n
        if s.kind == "ok":
            if has_next:
                yield "work-after-success", f"attempt {s.i} succeeded and attempt {s.i + 1} was invoked"
            bad = [e for e in s.events if e[0] in ("strategy", "budget", "sleep", "dsleep", "handler") or (e[0] == "metric" and e[1] == "retry")]
            if bad:
                yield "work-after-success", f"after successful attempt {s.i}: {bad[:3]}"
            continue
        if s.kind != "exc" and s.kind != "res":
            continue
        static, which = v.static_permit(s)
        n_consume = len(s.consumes)
        grants = sum(1 for c in s.consumes if c[2])
        spent = bool(s.consumes) or bool(s.retries) or bool(s.sleeps)
        if static is False:
            if stats is not None:
                stats["static_false:" + "+".join(which)] = stats.get("static_false:" + "+".join(which), 0) + 1
            if spent:
                what = []
                if s.consumes:
                    what.append(f"{n_consume} budget consume(s)")
                if s.retries:
                    what.append(f"{len(s.retries)} retry event(s)")
                if s.sleeps:
                    what.append(f"{len(s.sleeps)} sleep(s) of {[e[2] if e[0] == 'sleep' else e[1] for e in s.sleeps]}")
                key = "backoff-after-last-attempt" if which == ["global"] else "waste:" + "+".join(which)
                yield key, f"attempt {s.i} ({s.klass}/{s.cause}) can not be retried ({'+'.join(which)}) yet the library spent: {', '.join(what)}"
            if has_next:
                yield "retry-not-permitted:" + "+".join(which), f"attempt {s.i} ({s.klass}/{s.cause}) was retried although {'+'.join(which)}"
            continue
        if static is None:
            if stats is not None:
                stats["band"] = stats.get("band", 0) + 1
            continue
        # static holds
        reasons = []
        if s.poll_true:
            reasons.append("abort")
        if budget_cfg:
            if n_consume > 1:
                yield "budget-consumed-twice", f"attempt {s.i}: {n_consume} consume() calls for one failed attempt"
            if (n_consume >= 1 and grants == 0) or s.budget_full:
                reasons.append("budget")
                if s.retries or s.sleeps:
                    yield "waste:budget-refused", f"attempt {s.i}: budget refused yet retry event/sleep observed"
            if n_consume == 0 and has_next:
                yield "retry-without-budget-grant", f"attempt {s.i} was retried although the configured budget was never asked"
        dec = s.handlers[-1][4] if s.handlers else None
        if dec in ("defer", "abort"):
            reasons.append("handler-" + dec)
        band = False
        ta = v.sleep_end_time(s)
        if ta is not None:
            if ta > v.deadline + TOL:
                reasons.append("deadline-after-sleep")
            elif ta > v.deadline:
                band = True
        if stats is not None:
            k = "static_true:" + ("+".join(reasons) if reasons else "permitted")
            stats[k] = stats.get(k, 0) + 1
        if band and not reasons:
            continue
        permitted = not reasons
        if permitted and not has_next:
            rr = v.reported_reason()
            yield "premature-give-up", (
                f"attempt {s.i} ({s.klass}/{s.cause}) failed at elapsed {s.t_fail!r}; every retry condition holds "
                f"(count_k={s.count_k}, count_u={s.count_u}, max_attempts={cfg['max_attempts']}, deadline={v.deadline!r}) "
                f"but no further attempt was made (reported {rr}, final {v.final[0]} {tname(v.final[1])})"
            )
        if not permitted and has_next:
            yield "retry-not-permitted:" + "+".join(reasons), f"attempt {s.i} was retried although {'+'.join(reasons)}"
    # reported reasons must hold
    last = v.last_failed()
    seen = []
    for ev in v.all_terminals():
        tags = dict(ev[4])
        r = tags.get("stop_reason")
        if r is not None:
            seen.append(("event " + ev[1], r))
    rr = v.reported_reason()
    if rr is not None:
        seen.append(("delivered", rr))
    elif v.is_execute and not v.no_retry and v.final[0] == "return" and tname(v.final[1]) == "RetryOutcome" and not v.final[1].ok and last is not None \
            and not any(e_[0] == "br.allow" and not e_[1] for e_ in v.trace) and not v.sc.get("fault"):
        # the run stopped on a failure and says so (ok=False) - but not why: "the stop reason it reports" is no reason at all
        yield "stop-reason-missing", f"execute() returned a failed outcome without a stop_reason (events said {[r_ for _, r_ in seen]}; last failure: {(last.i, last.klass, last.cause)})"
    for src, r in seen:
        if not reason_holds(v, r, last):
            yield "stop-reason-does-not-hold:" + r, f"{src} reports {r} but that condition does not hold (last failure: {last and (last.i, last.klass, last.cause, last.t_fail)})"


# =============================================================================== C04
def has_frame(exc, name):
    tb = exc.__traceback__
    while tb is not None:
        if tb.tb_frame.f_code.co_name == name:
            return True
        tb = tb.tb_next
    return False


def last_terminal_reason(v: View):
    t = v.all_terminals()
    if not t:
        return None
    return dict(t[-1][4]).get("stop_reason")


def run_ending(v: View):
    """Classify how the run ended from the trace alone:
    ('value', seg) | ('aborted', seg|None) | ('deferred', seg) | ('stopped', seg) | ('special', seg) | ('none', None)"""
    if v.pre_poll_true:
        return "aborted", None
    hook_abort = any(e[0] == "fault" and e[1] in ("astart", "aend") and e[2] == "AbortRetryError" for e in v.trace)
    if hook_abort:
        return "aborted", (v.segs[-1] if v.segs else None)
    if not v.segs:
        return "none", None
    s = v.segs[-1]
    if s.kind == "ok":
        return "value", s
    if s.kind == "sp":
        if s.out[1] == "abort":
            return "aborted", s
        return "special", s
    if s.poll_true or any(h[4] == "abort" for h in s.handlers):
        return "aborted", s
    if any(h[4] == "defer" for h in s.handlers):
        return "deferred", s
    return "stopped", s


def o_surface(v: View):
    """C04: what call() returns / raises."""
    kind, val = v.final
    how, s = run_ending(v)
    if how == "value":
        if kind != "return" or val is not s.obj:
            yield "wrong-return-value", f"attempt {s.i} succeeded with {s.obj!r} but call() delivered {kind} {val!r}"
        return
    if how in ("aborted", "none"):
        return  # C13
    if how == "special":
        if kind != "raise" or val is not s.obj:
            yield "special-exception-not-propagated", f"operation raised {s.obj!r}; call() delivered {kind} {val!r}"
        return
    if kind != "raise":
        yield "failure-not-raised", f"retries stopped after a {s.cause} failure at attempt {s.i}; call() returned {val!r}"
        return
    if how == "stopped" and s.cause == "exception":
        if val is not s.obj:
            yield "wrong-exception-raised", f"last attempt raised {s.obj!r} (attempt {s.i}); call() raised {val!r}"
        elif not has_frame(val, "op_body"):
            yield "traceback-lost", f"raised {val!r} without the operation's frame in its traceback"
        if val is s.obj and val.__cause__ is not getattr(val, "rv_cause", None):
            yield "exception-chained", f"the operation's exception left call() with a different __cause__: {val.__cause__!r} (it was raised with {getattr(val, 'rv_cause', None)!r})"
        return
    # RetryExhaustedError expected
    if tname(val) != "RetryExhaustedError":
        yield "expected-retry-exhausted", f"run ended {how} on a {s.cause} failure; call() raised {val!r}"
        return
    want_reason = "SCHEDULED" if how == "deferred" else last_terminal_reason(v)
    if val.stop_reason.value != want_reason:
        yield "exhausted-wrong-stop-reason", f"RetryExhaustedError.stop_reason={val.stop_reason.value} but terminal event says {want_reason}"
    if val.attempts != v.nops:
        yield "exhausted-wrong-attempts", f"RetryExhaustedError.attempts={val.attempts} but the operation ran {v.nops} times"
    if getattr(val.last_class, "name", None) != s.klass:
        yield "exhausted-wrong-class", f"RetryExhaustedError.last_class={val.last_class} but final failure was {s.klass}"
    if s.cause == "result":
        if val.last_result is not s.obj or val.last_exception is not None:
            yield "exhausted-wrong-last-result", f"final result failure {s.obj!r}; error carries last_result={val.last_result!r} last_exception={val.last_exception!r}"
    else:
        if val.last_exception is not s.obj or val.last_result is not None:
            yield "exhausted-wrong-last-exception", f"final exception failure {s.obj!r}; error carries last_exception={val.last_exception!r} last_result={val.last_result!r}"
    if how == "deferred":
        d = [h for h in s.handlers if h[4] == "defer"][-1][3]
        if not same_num(val.next_sleep_s, d):
            yield "exhausted-wrong-next-sleep", f"deferred with delay {d!r}; next_sleep_s={val.next_sleep_s!r}"
    elif val.next_sleep_s is not None:
        yield "next-sleep-leaked", f"not deferred but next_sleep_s={val.next_sleep_s!r}"


def same_num(a, b):
    if a is None or b is None:
        return a is b
    if a != a and b != b:
        return True
    return a == b and math.copysign(1, a) == math.copysign(1, b) if (a == 0 and b == 0) else a == b


def eq_num(a, b):
    """Equality treating NaN == NaN; -0.0 == 0.0."""
    if a is None or b is None:
        return a is b
    if isinstance(a, float) and isinstance(b, float) and a != a and b != b:
        return True
    return a == b


# =============================================================================== C05
def o_delay(v: View, stats=None):
    cfg = v.cfg
    prev_applied = None
    legacy = set(cfg.get("legacy", ()))
    for j, s in enumerate(v.segs):
        if s.kind not in ("exc", "res"):
            if s.strategies:
                yield "strategy-called-without-failure", f"attempt {s.i} ({s.kind}) but strategy called: {s.strategies[0]}"
            continue
        ns = len(s.strategies)
        if ns > 1:
            yield "strategy-called-twice", f"attempt {s.i}: strategy called {ns} times"
        if s.retries and ns != 1:
            yield "granted-retry-without-strategy-call", f"attempt {s.i}: retry granted with {ns} strategy calls"
        if not s.strategies:
            continue
        st = s.strategies[0]
        _, entry, attempt, klassname, prev, remaining, cause, ra, value, cls_ok, t = st
        want_entry = s.klass if s.klass in cfg.get("class_strategies", ()) else "default"
        if entry != want_entry:
            yield "wrong-strategy-entry", f"attempt {s.i} failed with {s.klass}; strategy entry '{entry}' was called, expected '{want_entry}'"
        if attempt != s.i:
            yield "strategy-wrong-attempt", f"attempt {s.i}: strategy saw attempt={attempt}"
        if klassname != s.klass:
            yield "strategy-wrong-class", f"attempt {s.i} failed with {s.klass}: strategy saw {klassname}"
        if not eq_num(prev, prev_applied):
            yield "strategy-wrong-prev-sleep", f"attempt {s.i}: strategy saw prev_sleep_s={prev!r}, previously applied delay was {prev_applied!r}"
        rem_true = v.deadline - t  # remaining time at the instant the strategy was consulted
        if entry in legacy:
            if stats is not None:
                stats["legacy_calls"] = stats.get("legacy_calls", 0) + 1
        else:
            if remaining is None or abs(remaining - rem_true) > TOL:
                yield "strategy-wrong-remaining", f"attempt {s.i}: strategy saw remaining_s={remaining!r}, true remaining {rem_true!r}"
            if cause != s.cause:
                yield "strategy-wrong-cause", f"attempt {s.i} ({s.cause}): strategy saw cause={cause}"
            want_ra = (s.out[2] if len(s.out) > 2 else None) if cfg.get("use_classification") else None
            if s.out[0] == "sp":
                want_ra = None
            if not eq_num(ra, want_ra):
                yield "strategy-wrong-retry-after", f"attempt {s.i}: strategy saw retry_after_s={ra!r}, classifier gave {want_ra!r}"
            if not cls_ok:
                yield "strategy-wrong-classification-object", f"attempt {s.i}: strategy did not receive the classifier's Classification object"
        # expected delay
        val = num(value)
        if isinstance(val, int) and not isinstance(val, bool) and abs(val) > 2**1000:
            # beyond float range but finite: "capped at the time remaining" (negative: replaced by 0)
            if stats is not None:
                stats["huge_int_values"] = stats.get("huge_int_values", 0) + 1
            val = 1e308 if val > 0 else -1e308
        sv = val if (isinstance(val, (int, float)) and math.isfinite(val)) else 0.0
        sv = max(0.0, sv)
        if stats is not None:
            if not math.isfinite(val):
                stats["sanitised_nonfinite"] = stats.get("sanitised_nonfinite", 0) + 1
            elif val < 0:
                stats["sanitised_negative"] = stats.get("sanitised_negative", 0) + 1
            if sv > rem_true + 2 * TOL:
                stats["clamped"] = stats.get("clamped", 0) + 1
        # all observers of the delay in this segment
        seen = []
        for e in s.retries:
            seen.append(("retry event", e[3]))
        for e in s.handlers:
            seen.append(("sleep handler", e[3]))
        for e in s.bsleeps:
            seen.append(("before_sleep", e[3]))
        for e in s.sleeps:
            seen.append(("sleeper", e[2] if e[0] == "sleep" else e[1]))
        for e in s.terminals:
            if e[1] == "scheduled":
                seen.append(("scheduled event", e[3]))
        if j == len(v.segs) - 1:
            kind, fv = v.final
            nsl = None
            if kind == "return" and v.is_execute:
                nsl = getattr(fv, "next_sleep_s", None)
            elif kind == "raise" and tname(fv) == "RetryExhaustedError":
                nsl = fv.next_sleep_s
            if nsl is not None:
                seen.append(("next_sleep_s", nsl))
            elif any(h[4] == "defer" and len(h) < 6 for h in s.handlers) and (
                (kind == "return" and v.is_execute and tname(fv) == "RetryOutcome") or (kind == "raise" and tname(fv) == "RetryExhaustedError")
            ):
                yield "next-sleep-missing", f"attempt {s.i}: the sleep handler deferred the delay {s.handlers[-1][3]!r}; the delivered {tname(fv)} reports next_sleep_s=None"
        for who, d in seen:
            if not isinstance(d, (int, float)) or d != d or d < 0 or d == math.inf:
                yield "delay-not-sanitised", f"attempt {s.i}: {who} saw delay {d!r} (strategy returned {value!r})"
                continue
            if sv <= rem_true - 2 * TOL:
                ok = d == sv
            elif sv >= rem_true + 2 * TOL:
                ok = abs(d - rem_true) <= TOL
            else:
                ok = d <= max(sv, rem_true) + TOL and d >= min(sv, rem_true) - TOL
            if not ok:
                yield "wrong-delay", f"attempt {s.i}: {who} saw delay {d!r}; strategy returned {value!r}, remaining {rem_true!r}"
        ds = {repr(float(d)) for _, d in seen if isinstance(d, (int, float))}
        if len(ds) > 1:
            yield "delay-observers-disagree", f"attempt {s.i}: {seen}"
        pl_ = (v.sc.get("place") or {}).get("sleeper", "call")
        if (pl_ in ("policy", "both") or (pl_ == "call" and "sleeper" not in (v.env.get("drop_call_kw") or ()))) and any(e_[0] == "dsleep" for e_ in s.sleeps):
            # "that same delay is what the sleeper receives": the sleeper the caller configured, not the library's default one
            yield "configured-sleeper-bypassed", f"attempt {s.i}: a sleeper is configured ({pl_}) but the delay went to the default blocking/async sleep: {[e_[:3] for e_ in s.sleeps]}"
        if s.retries:
            prev_applied = s.retries[-1][3]
        elif seen:
            prev_applied = seen[0][1]
        if stats is not None:
            stats["strategy_calls_checked"] = stats.get("strategy_calls_checked", 0) + 1


# =============================================================================== C11
def o_outcome(v: View, stats=None, propagating=False):
    """C11: the RetryOutcome returned by execute().  `propagating`: the scenario contains a fault
    that is allowed to propagate (caller's strategy/classifier/sleeper raising)."""
    kind, val = v.final
    how, s = run_ending(v)
    cfg = v.cfg
    if kind == "raise":
        if how == "special" and s.out[1] in CANCEL_KINDS + ("nested_exh", "genexit", "base"):
            if val is not s.obj:
                yield "execute-raised-different-object", f"operation raised {s.obj!r}; execute() raised {val!r}"
            return
        if propagating:
            return
        yield "execute-raised:" + tname(val), f"execute() raised {val!r} (run ended '{how}')"
        return
    if kind != "return" or tname(val) != "RetryOutcome":
        yield "execute-no-outcome", f"execute() delivered {kind} {val!r}"
        return
    o = val
    if propagating:
        # a caller callback raised: the property only limits what may propagate - but whatever outcome IS returned still counts the
        # operation's invocations
        if o.attempts != v.nops:
            yield "outcome-wrong-attempts", f"attempts={o.attempts} but the operation was invoked {v.nops} times (a caller callback raised; execute() returned {o.stop_reason})"
        return
    for x in v.segs[:-1]:
        for h in x.handlers:
            if h[4] in ("defer", "abort"):
                yield "outcome-ignores-handler-decision", (
                    f"the configured {h[1]}-level sleep handler answers {h[4].upper()} for the retry after attempt {x.i}"
                    + (" (it was never asked)" if len(h) > 5 else "")
                    + f", yet the run went on to attempt {x.i + 1}; outcome stop_reason={getattr(o.stop_reason, 'name', None)} attempts={o.attempts}"
                )
                return
    if how == "special":
        if v.no_retry and s.out[1] in ("nested_exh", "nested_open") and not o.ok and o.last_exception is s.obj and o.attempts == v.nops:
            return  # Policy(retry=None) reports the operation's exception instead of raising it
        yield "special-swallowed", f"operation raised {s.obj!r} but execute() returned {o!r}"
        return
    want_ok = how == "value"
    if o.ok != want_ok:
        yield "outcome-wrong-ok", f"ok={o.ok} but run ended '{how}'"
        return
    if want_ok:
        if o.value is not s.obj:
            yield "outcome-wrong-value", f"value={o.value!r} but final attempt returned {s.obj!r}"
        for f in ("stop_reason", "last_class", "last_exception", "last_result", "cause", "next_sleep_s"):
            if getattr(o, f) is not None:
                yield "ok-outcome-stale-field:" + f, f"ok outcome carries {f}={getattr(o, f)!r}"
    elif o.value is not None:
        yield "outcome-value-on-failure", f"not ok but value={o.value!r}"
    rejected = any(e[0] == "br.allow" and not e[1] for e in v.pre)
    if rejected:
        if o.attempts != 0 or o.ok or tname(o.last_exception) != "CircuitOpenError":
            yield "rejection-outcome-wrong", f"breaker rejected; outcome {o!r}"
        if v.nops:
            yield "rejected-but-invoked", "breaker rejected the call but the operation ran"
        return
    if o.attempts != v.nops:
        yield "outcome-wrong-attempts", f"attempts={o.attempts} but the operation was invoked {v.nops} times"
    no_retry = v.no_retry
    if not want_ok and not no_retry:
        if o.stop_reason is None:
            yield "outcome-missing-stop-reason", f"not ok with stop_reason=None ({how})"
        else:
            r = o.stop_reason.value
            ltr = last_terminal_reason(v)
            if ltr is not None and r != ltr:
                yield "outcome-reason-differs-from-event", f"stop_reason={r}, terminal event said {ltr}"
            if not reason_holds(v, r, v.last_failed()):
                yield "stop-reason-does-not-hold:" + r, f"outcome.stop_reason={r} does not hold"
            exp = {"aborted": "ABORTED", "deferred": "SCHEDULED"}.get(how)
            if exp and r != exp:
                yield "outcome-wrong-stop-reason", f"run ended {how} but stop_reason={r}"
    if not want_ok:
        lf = v.last_failed()
        # expected description of the final failure
        def describes(seg):
            if seg is None:
                return o.last_class is None and o.cause is None and o.last_exception is None and o.last_result is None
            if getattr(o.last_class, "name", None) != seg.klass or o.cause != seg.cause:
                return False
            if seg.cause == "exception":
                return o.last_exception is seg.obj and o.last_result is None
            return o.last_result is seg.obj and o.last_exception is None

        if no_retry:
            # no retry component: only exception failures exist; class comes from default_classifier
            if lf is not None and not (o.last_exception is lf.obj and o.cause == "exception" and o.last_result is None):
                if how != "aborted":
                    yield "outcome-wrong-last-fields", f"no-retry failure {lf.obj!r}; outcome {o!r}"
        elif not describes(lf):
            # KF1: abort poll answered True right after the final failure, before it was recorded
            stale = False
            if how == "aborted" and lf is not None and lf is v.segs[-1] and lf.polls and lf.polls[0][2]:
                prev = None
                for x in v.segs[:-1]:
                    if x.kind in ("exc", "res"):
                        prev = x
                stale = describes(prev)
            if stale:
                yield "abort-poll-precedes-failure-record", (
                    f"ABORTED outcome: attempts={o.attempts}, final failed attempt {lf.i} ({lf.klass}/{lf.cause}, {lf.obj!r}) "
                    f"but fields describe {('attempt ' + str(prev.i)) if prev else 'no failure'}: last_class={o.last_class} cause={o.cause} "
                    f"last_exception={o.last_exception!r} last_result={o.last_result!r}"
                )
            else:
                yield "outcome-wrong-last-fields", (
                    f"final failure {lf and (lf.i, lf.klass, lf.cause, lf.obj)}; outcome last_class={o.last_class} cause={o.cause} "
                    f"last_exception={o.last_exception!r} last_result={o.last_result!r} ({how})"
                )
    if how == "deferred":
        d = [h for h in s.handlers if h[4] == "defer"][-1][3]
        if not eq_num(o.next_sleep_s, d) or o.next_sleep_s is None:
            yield "outcome-wrong-next-sleep", f"deferred with delay {d!r}; next_sleep_s={o.next_sleep_s!r}"
    elif o.next_sleep_s is not None:
        yield "next-sleep-leaked", f"run ended '{how}' but next_sleep_s={o.next_sleep_s!r}"
    tl = v.sc.get("timeline")
    if not no_retry:
        if tl and o.timeline is None:
            yield "timeline-missing", "capture_timeline requested but outcome.timeline is None"
        if tl in ("obj", "objshared") and o.timeline is not v.rec.timeline_obj:
            yield "timeline-not-the-given-object", "outcome.timeline is not the RetryTimeline passed in"
    if stats is not None:
        stats["outcomes_checked"] = stats.get("outcomes_checked", 0) + 1


# =============================================================================== C13
def o_abort(v: View, stats=None):
    tr = v.trace
    use_abort = v.sc.get("poll") or any(c.get("abort_at") is not None for c in v.sc["calls"])
    rejected = any(e[0] == "br.allow" and not e[1] for e in tr)
    # (a) poll placement
    if use_abort and not rejected:
        prev = None
        for ev in tr:
            if ev[0] in ("op", "sleep", "dsleep", "poll"):
                if ev[0] != "poll" and (prev is None or prev[0] != "poll"):
                    yield "unpolled-" + ("attempt" if ev[0] == "op" else "sleep"), f"{ev[:3]} not preceded by an abort poll (previous action: {prev and prev[:3]})"
                if stats is not None and ev[0] != "poll":
                    stats["gaps_checked"] = stats.get("gaps_checked", 0) + 1
                prev = ev
    # (b) silence after abort / cancellation
    stop_at = None
    why = None
    expect = None
    for idx, ev in enumerate(tr):
        if ev[0] == "poll" and ev[2]:
            stop_at, why, expect = idx, "abort_if answered True", "abort"
            break
        if ev[0] == "thrown":
            stop_at, why, expect = idx, f"{ev[1]} thrown at suspension point", "thrown"
            break
        if ev[0] == "fault" and ev[1] == "sleeper" and ev[2] in CANCEL_KINDS:
            stop_at, why, expect = idx, f"sleeper raised {ev[2]}", "fault"
            break
    # operation-raised special
    sp_seg = None
    for s in v.segs:
        if s.kind == "sp" and s.out[1] in ("abort",) + CANCEL_KINDS:
            sp_seg = s
            break
    if sp_seg is not None:
        # position of that op in the trace
        for idx, ev in enumerate(tr):
            if ev[0] == "op" and ev[1] == sp_seg.i:
                if stop_at is None or idx < stop_at:
                    stop_at, why = idx, f"operation raised {sp_seg.out[1]} at attempt {sp_seg.i}"
                    expect = "abort-op" if sp_seg.out[1] == "abort" else "special"
                break
    if stop_at is None:
        return
    if stats is not None:
        stats["stops:" + expect] = stats.get("stops:" + expect, 0) + 1
    banned = ("op", "sleep", "dsleep", "strategy", "budget", "handler", "before_sleep")
    if expect in ("special", "thrown", "fault"):
        banned = banned + ("classify", "rclassify", "poll")
    for ev in tr[stop_at + 1 :]:
        if ev[0] in banned or (ev[0] == "metric" and ev[1] == "retry"):
            if expect == "thrown" and ev[0] == "op" and tr[stop_at][2] == "op-pending":
                continue
            yield "work-after-" + ("abort" if expect.startswith("abort") else "cancellation"), f"{why}; afterwards: {ev[:4]}"
            break
    kind, val = v.final
    if expect in ("abort", "abort-op"):
        if v.is_execute:
            ok = kind == "return" and tname(val) == "RetryOutcome" and not val.ok and getattr(val.stop_reason, "value", None) == "ABORTED"
        else:
            ok = kind == "raise" and tname(val) == "AbortRetryError"
            if ok and expect == "abort-op" and val is not sp_seg.obj:
                ok = False
        if not ok:
            yield "abort-not-delivered", f"{why}; run delivered {kind} {val!r}"
    elif expect == "special":
        if not (kind == "raise" and val is sp_seg.obj):
            yield "cancellation-not-propagated", f"{why} ({sp_seg.obj!r}); run delivered {kind} {val!r}"
    elif expect == "thrown":
        x = v.rec.objs.get("thrown")
        if tr[stop_at][1] == "close":
            if kind != "closed":
                yield "close-not-honoured", f"coroutine closed; driver saw {kind} {val!r}"
        elif not (kind == "raise" and val is x):
            yield "cancellation-not-propagated", f"{why} ({x!r}); run delivered {kind} {val!r}"
    elif expect == "fault":
        x = v.rec.objs.get("fault")
        if not (kind == "raise" and val is x):
            yield "cancellation-not-propagated", f"{why} ({x!r}); run delivered {kind} {val!r}"


# =============================================================================== C14
def o_events(v: View, stats=None):
    """C14 for a run with a retry component that ended normally."""
    cfg = v.cfg
    kind, val = v.final
    how, s = run_ending(v)
    rejected = any(e[0] == "br.allow" and not e[1] for e in v.trace)
    if how == "special" or (how == "none" and not v.pre_poll_true and not rejected):
        return
    mets = v.all_metric()
    logs = [e for e in v.trace if e[0] == "log"]
    opname = cfg.get("operation")
    deco = v.rec.entry.lstrip("a").startswith("deco")
    if deco and opname is None:
        opname = "aop" if v.rec.entry.startswith("a") else "op"
    if not rejected and not v.no_retry:
        names = [m[1] for m in mets]
        terms = [n for n in names if n in TERMINALS]
        if len(terms) != 1:
            yield ("double-terminal" if len(terms) > 1 else "missing-terminal"), f"metric events {names} (run ended '{how}')"
        elif names[-1] not in TERMINALS:
            yield "terminal-not-last", f"metric events {names}"
        if any(n not in TERMINALS and n != "retry" for n in names):
            yield "unknown-event", f"metric events {names}"
        # retry events: i-th has attempt i and the applied delay
        ri = 0
        for seg in v.segs:
            for e in seg.retries:
                ri += 1
                if e[2] != ri or e[2] != seg.i:
                    yield "retry-event-wrong-attempt", f"{ri}-th retry event has attempt={e[2]} (emitted during attempt {seg.i})"
                applied = None
                if seg.sleeps:
                    x = seg.sleeps[-1]
                    applied = x[2] if x[0] == "sleep" else x[1]
                elif seg.handlers:
                    applied = seg.handlers[-1][3]
                if applied is not None and not eq_num(e[3], applied):
                    yield "retry-event-wrong-delay", f"retry event sleep_s={e[3]!r}, applied delay {applied!r}"
                tags = dict(e[4])
                if tags.get("class") != seg.klass or tags.get("cause") != seg.cause:
                    yield "retry-event-wrong-tags", f"retry event tags {tags} for failure {seg.klass}/{seg.cause}"
                if (seg.cause == "exception") != ("err" in tags):
                    yield "retry-event-wrong-tags", f"retry event tags {tags} for cause {seg.cause}"
        if len(terms) == 1:
            t = [m for m in mets if m[1] in TERMINALS][0]
            tags = dict(t[4])
            if how == "value":
                if t[1] != "success":
                    yield "terminal-not-success", f"run succeeded, terminal event {t[1]}"
                elif t[2] != v.nops:
                    yield "terminal-wrong-attempt", f"success event attempt={t[2]}, operation ran {v.nops} times"
                if set(tags) - {"operation"}:
                    yield "success-event-extra-tags", f"{tags}"
            else:
                if t[1] == "success":
                    yield "success-on-failure", f"run ended '{how}' with a success event"
                r = tags.get("stop_reason")
                delivered = v.reported_reason()
                if kind == "raise" and tname(val) == "AbortRetryError":
                    delivered = "ABORTED"
                if delivered is None and v.is_execute and kind == "return" and tname(val) == "RetryOutcome" and not val.ok:
                    delivered = "<none>"  # execute() delivers its stop reason through the outcome: a missing one disagrees with the event
                if delivered is not None and r != delivered:
                    yield "terminal-reason-differs-from-delivery", f"terminal event {t[1]} stop_reason={r}; caller got {delivered}"
                if r is None or r not in EVENT_REASON.get(t[1], ()):
                    yield "terminal-reason-name-mismatch", f"event {t[1]} carries stop_reason={r}"
                if t[1] == "aborted":
                    if set(tags) - {"stop_reason", "operation"}:
                        yield "abort-event-extra-tags", f"{tags}"
                else:
                    lf = v.last_failed()
                    if lf is not None:
                        if tags.get("class") != lf.klass:
                            yield "terminal-wrong-class", f"terminal {t[1]} class={tags.get('class')}; final failure {lf.klass}"
                        if tags.get("cause") != lf.cause:
                            yield "terminal-wrong-cause", f"terminal {t[1]} cause={tags.get('cause')}; final failure cause {lf.cause}"
                        if lf.cause == "exception":
                            if tags.get("err") != tname(lf.obj):
                                yield "terminal-wrong-err", f"terminal {t[1]} err={tags.get('err')}; final exception {tname(lf.obj)}"
                        elif "err" in tags:
                            yield "terminal-stale-err", f"terminal {t[1]} carries err={tags['err']} for a result failure"
                        if t[2] != v.nops:
                            yield "terminal-wrong-attempt", f"terminal {t[1]} attempt={t[2]}, operation ran {v.nops} times"
                    if t[1] == "scheduled":
                        d = [h for h in s.handlers if h[4] == "defer"]
                        if d and not eq_num(t[3], d[-1][3]):
                            yield "scheduled-event-wrong-delay", f"scheduled event sleep_s={t[3]!r}; delay {d[-1][3]!r}"
                    elif t[3] != 0.0:
                        yield "terminal-nonzero-sleep", f"terminal {t[1]} sleep_s={t[3]!r}"
            if (tags.get("operation") or None) != opname:
                yield "terminal-wrong-operation", f"terminal operation tag {tags.get('operation')!r}, configured {opname!r}"
    # sink parity: log stream == metric stream (all events incl. breaker)
    allm = v.all_metric(include_breaker=True)
    if not v.sc.get("no_hooks") and v.sc.get("hook_set", "both") == "both":
        if len(allm) != len(logs):
            yield "log-metric-count-differs", f"metric {[m[1] for m in allm]} vs log {[l[1] for l in logs]}"
        else:
            for m, l in zip(allm, logs):
                f = dict(l[2])
                ra = f.pop("retry_after_s", None)
                want = dict(m[4])
                want["attempt"] = m[2]
                want["sleep_s"] = m[3]
                if m[1] != l[1] or not dict_eq(f, want):
                    yield "log-metric-differ", f"metric {m[1:]} vs log {l[1:]}"
                    break
                if ra is not None and m[1] != "retry":
                    yield "retry-after-on-non-retry-log", f"log {l[1:]}"
    # timeline
    if v.is_execute and kind == "return" and v.sc.get("timeline") and not v.no_retry and v.segs and tname(val) == "RetryOutcome" and val.timeline is None:
        yield "timeline-missing", f"a timeline capture was requested ({v.sc.get('timeline')!r}: {type(v.rec.timeline_obj).__name__ if v.rec.timeline_obj is not None else True}) but the outcome carries none"
    if v.is_execute and kind == "return" and getattr(val, "timeline", None) is not None and not v.no_retry:
        evs = val.timeline.events
        if v.rec.objs.get("tl_before") is not None:
            # a caller-supplied timeline (possibly reused across calls): this call's entries are the ones appended during it
            evs = evs[v.rec.objs["tl_before"]:v.rec.objs.get("tl_after")]
        if len(evs) != len(mets):
            yield "timeline-count-differs", f"timeline {[e.event for e in evs]} vs metric {[m[1] for m in mets]}"
        else:
            for te, m in zip(evs, mets):
                tags = dict(m[4])
                ok = (
                    te.event == m[1]
                    and te.attempt == m[2]
                    and eq_num(te.sleep_s, m[3])
                    and getattr(te.error_class, "name", None) == tags.get("class")
                    and getattr(te.stop_reason, "value", None) == tags.get("stop_reason")
                    and te.cause == tags.get("cause")
                )
                if not ok:
                    yield "timeline-differs", f"timeline {te} vs metric {m[1:]}"
                    break
        if stats is not None:
            stats["timelines_checked"] = stats.get("timelines_checked", 0) + 1
    # breaker events
    for m in v.all_metric(include_breaker=True):
        if m[1] in BREAKER_EVENTS:
            tags = dict(m[4])
            if m[2] != 0 or m[3] != 0.0 or "state" not in tags:
                yield "breaker-event-shape", f"{m[1:]}"
            if stats is not None:
                stats["breaker_events_checked"] = stats.get("breaker_events_checked", 0) + 1
    # breaker event <-> spy correspondence
    spy = [e for e in v.trace if e[0].startswith("br.")]
    want = []
    for e in spy:
        if e[0] == "br.allow" and e[3] is not None:
            want.append((e[3], e[2], None))
        elif e[0] == "br.success" and e[1] is not None:
            want.append((e[1], "closed", None))
        elif e[0] == "br.failure" and e[2] is not None:
            want.append((e[2], "open", e[1]))
    got = [(m[1], dict(m[4]).get("state"), dict(m[4]).get("class")) for m in v.all_metric(include_breaker=True) if m[1] in BREAKER_EVENTS]
    only = v.sc.get("hook_set", "both")
    if only == "log":
        got = want  # (the metric-shaped records are mirrors of the log records here; the log side is judged below)
    if spy and not v.sc.get("no_hooks") and only in ("both", "metric") and want != got:
        yield "breaker-events-differ-from-transitions", f"breaker said {want}; events {got}"
    if spy and not v.sc.get("no_hooks") and only in ("both", "log"):
        # the log hook is a sink of its own: it gets the breaker's events whether or not a metric hook is attached next to it
        gotl = [(e[1], dict(e[2]).get("state"), dict(e[2]).get("class")) for e in v.trace if e[0] == "log" and e[1] in BREAKER_EVENTS]
        if want != gotl:
            yield "breaker-events-differ-from-transitions", f"breaker said {want}; the log hook received {gotl}" + ("" if only == "both" else " (no metric hook attached)")
    for e in spy:
        if e[0] == "br.silent":
            yield "breaker-transition-not-reported", f"the breaker went from {e[2]} to {e[3]} inside {e[1]}() without handing back an event: no hook can have been told"
    for e in spy:
        if e[0] == "br.allow" and e[3] is not None and len(e) > 5 and e[2] != e[5]:
            yield "breaker-event-state-is-not-the-breakers-state", f"allow() reported state {e[2]!r} with event {e[3]} while the breaker's state is {e[5]!r}"
    if stats is not None:
        stats["streams_checked:" + how] = stats.get("streams_checked:" + how, 0) + 1


def dict_eq(a, b):
    if a.keys() != b.keys():
        return False
    return all(eq_num(a[k], b[k]) for k in a)


# =============================================================================== C16
def o_handler(v: View, stats=None):
    cfg = v.cfg
    for e in v.trace:
        if e[0] == "callable-copied":
            # the sleep handler / before_sleep hook / sleeper the caller configured is an object with state of its own; the library
            # consulted a copy of it, so the caller's own object was never consulted at all
            yield "callback-object-replaced-by-a-copy", f"the library called a COPY of the caller's callable object(s) {e[1]}: the object that was configured saw nothing of this call"
            return
    place = dict(v.sc.get("place") or {})
    deco = v.rec.entry.lstrip("a").startswith("deco")
    if not deco:
        # per-call arguments this particular call did not pass
        for kw_, name in (("sleep", "handler"), ("before_sleep", "before_sleep"), ("sleeper", "sleeper")):
            if kw_ in (v.env.get("drop_call_kw") or ()):
                cur = place.get(name, "call" if name == "sleeper" else "none")
                place[name] = {"call": "none", "both": "policy"}.get(cur, cur)

    def winner(where):
        if where in (None, "none"):
            return None
        if deco:
            return "policy"
        return "call" if where in ("call", "both") else "policy"

    wh = winner(place.get("handler", "none"))
    wb = winner(place.get("before_sleep", "none"))
    ws = winner(place.get("sleeper", "call"))
    n = len(v.segs)
    for j, s in enumerate(v.segs):
        has_next = j + 1 < n
        if any(len(h) > 5 for h in s.handlers):
            # the view's stand-in for a handler that was configured but never asked
            yield "handler-not-once", f"attempt {s.i}: handler consulted 0 times for one granted retry (the run went on without it)"
            continue
        if not s.retries:
            if s.handlers:
                yield "handler-without-grant", f"attempt {s.i}: sleep handler consulted but no retry was granted: {s.handlers}"
            if s.sleeps:
                yield "sleep-without-grant", f"attempt {s.i}: sleep without a granted retry: {s.sleeps}"
            continue
        delay = s.retries[-1][3]
        order = [e for e in s.events if e[0] in ("handler", "before_sleep", "sleep", "dsleep")]
        kinds = [e[0] for e in order]
        if stats is not None:
            stats["granted_retries"] = stats.get("granted_retries", 0) + 1
        if wh is None:
            if s.handlers:
                yield "handler-unexpected", f"no handler configured but {s.handlers}"
            dec = "sleep"
        else:
            if len(s.handlers) != 1:
                if s.poll_true and not s.handlers:
                    continue  # aborted between grant and handler (C13)
                yield "handler-not-once", f"attempt {s.i}: handler consulted {len(s.handlers)} times for one granted retry"
                continue
            h = s.handlers[0]
            if h[1] != wh:
                yield "handler-precedence", f"{place.get('handler')} placement: {h[1]}-level handler consulted, expected {wh}-level"
            if not eq_num(h[3], delay):
                yield "handler-wrong-delay", f"handler saw {h[3]!r}, computed delay {delay!r}"
            dec = h[4]
            if stats is not None:
                stats["decision:" + dec] = stats.get("decision:" + dec, 0) + 1
        if dec == "bogus":
            continue
        if dec == "sleep":
            if s.poll_true and not s.sleeps:
                continue  # aborted between grant and sleep
            want = (["handler"] if wh else []) + (["before_sleep"] if wb else []) + ["sleep" if ws else "dsleep"]
            if kinds != want:
                yield "sleep-protocol", f"attempt {s.i}: expected {want}, observed {kinds} ({place})"
                continue
            if wb:
                b = s.bsleeps[0]
                if b[1] != wb:
                    yield "before-sleep-precedence", f"{place.get('before_sleep')} placement: {b[1]}-level hook called"
                if not eq_num(b[3], delay):
                    yield "before-sleep-wrong-delay", f"before_sleep saw {b[3]!r}, delay {delay!r}"
            sl = s.sleeps[0]
            if sl[0] == "sleep":
                if sl[1] != ws:
                    yield "sleeper-precedence", f"{place.get('sleeper')} placement: {sl[1]}-level sleeper called"
                d = sl[2]
            else:
                d = sl[1]
            if not eq_num(d, delay):
                yield "sleeper-wrong-delay", f"sleeper got {d!r}, delay {delay!r}"
            if not has_next:
                ta = v.sleep_end_time(s)
                if s.poll_true or (ta is not None and ta > v.deadline):
                    pass
                else:
                    key = "backoff-after-last-attempt" if s.i >= cfg["max_attempts"] else "sleep-not-followed-by-attempt"
                    yield key, f"attempt {s.i}: granted retry slept {d!r}s but no attempt followed (max_attempts={cfg['max_attempts']})"
        else:
            if s.sleeps or s.bsleeps:
                yield dec + "-but-slept", f"attempt {s.i}: handler said {dec} yet {kinds}"
            if has_next:
                yield dec + "-but-retried", f"attempt {s.i}: handler said {dec} yet attempt {s.i + 1} ran"
            kind, val = v.final
            if dec == "defer":
                if v.is_execute:
                    ok = kind == "return" and getattr(getattr(val, "stop_reason", None), "value", None) == "SCHEDULED" and eq_num(val.next_sleep_s, delay) and val.next_sleep_s is not None
                else:
                    ok = kind == "raise" and tname(val) == "RetryExhaustedError" and val.stop_reason.value == "SCHEDULED" and eq_num(val.next_sleep_s, delay) and val.next_sleep_s is not None
                if not ok:
                    yield "defer-not-scheduled", f"handler deferred with delay {delay!r}; run delivered {kind} {val!r}"
            else:
                if v.is_execute:
                    ok = kind == "return" and getattr(getattr(val, "stop_reason", None), "value", None) == "ABORTED"
                else:
                    ok = kind == "raise" and tname(val) == "AbortRetryError"
                if not ok:
                    yield "abort-not-aborted", f"handler aborted; run delivered {kind} {val!r}"


# =============================================================================== C09
def o_account(v: View, stats=None):
    tr = v.trace
    allows = [e for e in tr if e[0] == "br.allow"]
    if not allows:
        return
    recs = [e for e in tr if e[0] in ("br.success", "br.failure", "br.cancel")]
    if len(allows) > 1:
        yield "allow-twice", f"{allows}"
    if not allows[0][1]:
        if recs:
            yield "rejected-call-recorded", f"breaker rejected the call but saw {recs}"
        if v.nops:
            yield "rejected-but-invoked", "breaker rejected the call but the operation ran"
        return
    how, s = run_ending(v)
    if how == "value":
        want = ("br.success",)
    elif how in ("aborted", "none"):
        want = ("br.cancel",)
        kind_, val_ = v.final
        lf_ = v.last_failed()
        if how == "aborted" and kind_ == "raise" and lf_ is not None and lf_.obj is not None and val_ is lf_.obj:
            # an abort predicate answered True somewhere, but what the caller received is the operation's own error: the call ended as
            # a FAILED call and is accounted as one (a cancel next to a delivered failure would hide the failure from the breaker)
            want = ("br.failure", lf_.klass)
            s = lf_
    elif how == "special":
        sp = s.out[1]
        if sp in CANCEL_KINDS + ("genexit", "base"):
            want = ("br.cancel",)
        elif sp == "nested_exh":
            want = ("br.failure", (s.out[2] if len(s.out) > 2 and s.out[2] else "UNKNOWN"))
            if v.no_retry and len(recs) == 1 and recs[0][0] == "br.failure" and recs[0][1] == "UNKNOWN":
                # no retry component: the property does not pin whether the nested error's last_class or the
                # policy's own classification of the error object counts (C12 compares the entry points)
                want = None
        else:
            want = None
    else:
        want = ("br.failure", s.klass)
    if stats is not None:
        stats["accounted:" + how] = stats.get("accounted:" + how, 0) + 1
    nested_open_final = s is not None and s.out[0] == "sp" and s.out[1] == "nested_open" and how == "stopped"
    if len(recs) != 1:
        if nested_open_final and not v.is_execute and not recs:
            yield "final-exception-is-nested-CircuitOpenError", "call(): nested CircuitOpenError as final failure is not recorded at all"
        else:
            yield ("no-record" if not recs else "multiple-records"), f"admitted call ended '{how}' with breaker records {recs}"
        return
    r = recs[0]
    if want is None:
        return
    got = (r[0],) if r[0] != "br.failure" else (r[0], r[1])
    if got != want:
        if nested_open_final and not v.is_execute:
            yield "final-exception-is-nested-CircuitOpenError", f"call(): nested CircuitOpenError as final failure recorded as {got}, expected {want}"
        else:
            yield "wrong-record", f"admitted call ended '{how}' (final failure {s and s.klass}); breaker was told {got}, expected {want}"


# =============================================================================== projections (C12, C15)
def canon_final(v: View):
    """Entry-independent description of what was delivered."""
    kind, val = v.final
    objs = {id(o): k for k, o in v.rec.objs.items()}
    if kind == "closed":
        return ("closed",)
    if kind == "return":
        if tname(val) == "RetryOutcome":
            o = val
            if o.ok:
                return ("value", objs.get(id(o.value), repr(o.value)))
            sr = getattr(o.stop_reason, "value", None)
            if sr == "ABORTED":
                return ("aborted",)
            if tname(o.last_exception) == "CircuitOpenError" and o.attempts == 0:
                return ("rejected",)
            return (
                "stopped",
                sr,
                o.attempts,
                getattr(o.last_class, "name", None),
                o.cause,
                objs.get(id(o.last_exception)) if o.last_exception is not None else objs.get(id(o.last_result)),
                fnum(o.next_sleep_s),
            )
        return ("value", objs.get(id(val), repr(val)))
    t = tname(val)
    if t == "AbortRetryError":
        return ("aborted",)
    if id(val) in objs:
        k = objs[id(val)]
        return ("exception", k)
    if t == "RetryExhaustedError":
        return (
            "stopped",
            val.stop_reason.value,
            val.attempts,
            getattr(val.last_class, "name", None),
            "exception" if val.last_exception is not None else "result",
            objs.get(id(val.last_exception)) if val.last_exception is not None else objs.get(id(val.last_result)),
            fnum(val.next_sleep_s),
        )
    if t == "CircuitOpenError":
        return ("rejected",)
    return ("propagated", t)


def fnum(x):
    if x is None:
        return None
    if x != x:
        return "nan"
    return float(x)


def canon_call_vs_execute(cf, v: View):
    """Identify call() and execute() deliveries of the same final result: a call() that raises the
    final scripted exception object corresponds to an execute() 'stopped' outcome carrying it."""
    if cf[0] == "stopped" and cf[4] == "exception" and cf[6] is None and cf[1] != "SCHEDULED":
        return ("exception", cf[5])
    return cf


def project(v: View, *, keep, strip_place=True, strip_operation=False, drop_breaker=False, roles=False):
    """`roles`: instead of dropping the placement of handler / before_sleep / sleeper events, say whether the callback that was asked
    is the one that governs this call ("governing") or one that should have been overridden - comparable across entry points whose
    placements differ by construction (the decorator has construction-time placement only)."""
    out = []

    def role(name, place):
        return ("governing" if place == v.winner(name) else "overridden",) if roles else ()

    for ev in v.trace:
        k = ev[0]
        if k not in keep:
            continue
        if drop_breaker and (k.startswith("br.") or (k in ("metric", "log") and ev[1] in BREAKER_EVENTS)):
            continue
        if k == "metric":
            tags = tuple((a, fnum(b) if isinstance(b, float) else b) for a, b in ev[4] if not (strip_operation and a == "operation"))
            out.append((k, ev[1], ev[2], fnum(ev[3]), tags))
        elif k == "log":
            f = tuple((a, fnum(b) if isinstance(b, float) else b) for a, b in ev[2] if not (strip_operation and a == "operation"))
            out.append((k, ev[1], f))
        elif k == "strategy":
            out.append((k,) + tuple(fnum(x) if isinstance(x, float) else x for x in ev[1:10]))
        elif k in ("handler", "before_sleep"):
            out.append((k,) + (() if strip_place else (ev[1],)) + role(k, ev[1]) + tuple(fnum(x) if isinstance(x, float) else x for x in ev[2:]))
        elif k == "sleep":
            out.append(("sleep", fnum(ev[2]), ev[3]) + role("sleeper", ev[1]))
        elif k == "dsleep":
            out.append(("sleep", fnum(ev[1]), ev[2]))
        elif k in ("astart", "aend"):
            out.append((k,) + tuple(ev[2:]))
        elif k == "br.allow":
            out.append(ev[:4])
        elif k in ("br.success", "br.failure", "br.cancel"):
            out.append(ev[:-1])
        elif k == "budget":
            out.append(ev[:3])
        else:
            out.append(ev)
    return out
