"""pytest plugin: run the repository's own tests under three of the monitors (auxiliary workload).

    PYTHONPATH=/verif:$VERIF_REPO/src RV_SHADOW_OUT=<file> pytest -p rv.pytest_shadow ...

* every CircuitBreaker created by a test is shadowed by rv.models.BreakerModel (C06/C07),
* every Budget by rv.models.BudgetModel (C10),
* every Retry/AsyncRetry run is checked for the attempt cap (C01) and the event grammar
  retry* terminal (C14).

It is not a deciding oracle: it shows that the monitors stay silent on the maintainers' scenarios
(different authors' workloads) and would flag a defect those scenarios happen to exercise.
Mismatches are collected and written to RV_SHADOW_OUT as JSON; the test results themselves are
not altered.
"""

from __future__ import annotations

import functools
import inspect
import json
import os
import time as _time

import redress.budget as m_budget
import redress.circuit as m_circuit
import redress.policy.retry_async as m_ra
import redress.policy.retry_sync as m_rs
import redress.policy.state as m_state
from redress.errors import AbortRetryError

from .models import BreakerModel, BudgetModel

PROBLEMS: list[dict] = []
STATS = {"breakers": 0, "breaker_ops": 0, "budgets": 0, "budget_ops": 0, "retry_runs": 0, "retry_runs_checked": 0, "events": 0}
TERMINALS = {"success", "permanent_fail", "deadline_exceeded", "max_attempts_exceeded", "max_unknown_attempts_exceeded", "no_strategy_configured", "budget_exhausted", "scheduled", "aborted"}
_CURRENT_TEST = [""]


def problem(kind, msg):
    PROBLEMS.append({"test": _CURRENT_TEST[0], "kind": kind, "msg": msg})


# ------------------------------------------------------------------ CircuitBreaker
_orig_cb_init = m_circuit.CircuitBreaker.__init__


def _cb_init(self, *a, **kw):
    _orig_cb_init(self, *a, **kw)
    STATS["breakers"] += 1
    clock = self._clock
    last = [None]

    def recording_clock():
        v = clock()
        last[0] = v
        return v

    self._clock = recording_clock
    self._rv_last = last
    self._rv_model = BreakerModel(
        threshold=self._failure_threshold,
        window=self._window_s,
        recovery=self._recovery_timeout_s,
        trip_on={k.name for k in self._trip_on},
        class_thresholds={k.name: v for k, v in self._class_thresholds.items()},
    )
    self._rv_ok = True


def _wrap_cb(name):
    orig = getattr(m_circuit.CircuitBreaker, name)

    @functools.wraps(orig)
    def wrapper(self, *a, **kw):
        model = getattr(self, "_rv_model", None)
        if model is None or not self._rv_ok:
            return orig(self, *a, **kw)
        before = model.mode
        r = orig(self, *a, **kw)
        STATS["breaker_ops"] += 1
        now = self._rv_last[0]
        try:
            if name == "allow":
                got = (r.allowed, r.state.value)
                want = model.allow(now)
                if got not in want:
                    problem("breaker", f"allow() -> {got}, model (mode {before}) allows {sorted(want)}")
                    self._rv_ok = False
                else:
                    model.commit_allow(now, got)
            elif name == "record_success":
                want = model.success(now)
                if r not in want:
                    problem("breaker", f"record_success() -> {r!r}, model (mode {before}) allows {want}")
                    self._rv_ok = False
            elif name == "record_cancel":
                model.cancel(now)
            elif name == "record_failure":
                k = getattr(a[0] if a else kw.get("klass"), "name", None)
                want = model.failure(now, k)
                if r not in want:
                    problem("breaker", f"record_failure({k}) -> {r!r}, model (mode {before}, history {model.fails}) allows {want}")
                    self._rv_ok = False
                else:
                    model.commit_failure(now, k, r)
        except Exception as x:  # noqa: BLE001 - a monitor bug must not break the maintainers' tests
            self._rv_ok = False
            PROBLEMS.append({"test": _CURRENT_TEST[0], "kind": "monitor-error", "msg": repr(x)})
        return r

    return wrapper


# ------------------------------------------------------------------ Budget
class _TimeProxy:
    """Stands in for the `time` module inside redress.budget; records the last monotonic reading."""

    def __init__(self):
        object.__setattr__(self, "_over", {})
        object.__setattr__(self, "last", None)

    def __setattr__(self, k, v):
        if getattr(v, "__self__", None) is self:
            self._over.pop(k, None)  # monkeypatch restoring our own bound method
        else:
            self._over[k] = v

    def __delattr__(self, k):
        self._over.pop(k, None)

    def __getattr__(self, k):
        if k in self._over:
            return self._over[k]
        return getattr(_time, k)

    def monotonic(self):
        f = self._over.get("monotonic")
        v = f() if f is not None else _time.monotonic()
        object.__setattr__(self, "last", v)
        return v


_orig_b_init = m_budget.Budget.__init__


def _b_init(self, *a, **kw):
    _orig_b_init(self, *a, **kw)
    STATS["budgets"] += 1
    self._rv_model = BudgetModel(self.max_retries, self.window_s)
    self._rv_ok = True


def _wrap_budget(name):
    orig = getattr(m_budget.Budget, name)

    @functools.wraps(orig)
    def wrapper(self, *a, **kw):
        model = getattr(self, "_rv_model", None)
        if model is None or not self._rv_ok:
            return orig(self, *a, **kw)
        r = orig(self, *a, **kw)
        now = getattr(m_budget.time, "last", None)
        if now is None:
            return r
        STATS["budget_ops"] += 1
        if name == "consume":
            cost = a[0] if a else kw.get("cost", 1)
            want = model.consume(now, cost)
            if r not in want:
                problem("budget", f"consume({cost}) -> {r}, model live {model.live(now)} of {model.max} allows {want}")
                self._rv_ok = False
            else:
                model.commit(now, cost, r)
        else:
            want = model.remaining(now)
            if r not in want:
                problem("budget", f"remaining() -> {r}, model allows {sorted(want)}")
                self._rv_ok = False
        return r

    return wrapper


# ------------------------------------------------------------------ retry runs: caps + event grammar
_orig_emit = m_state._RetryState.emit


def _emit(self, event, attempt, sleep_s, *a, **kw):
    log = self.__dict__.setdefault("_rv_events", [])
    log.append((event, attempt, sleep_s))
    STATS["events"] += 1
    _RUNS.append(self) if not _RUNS or _RUNS[-1] is not self else None
    return _orig_emit(self, event, attempt, sleep_s, *a, **kw)


_RUNS: list = []


def _check_run(policy, calls, ended_normally, states_before):
    STATS["retry_runs"] += 1
    if calls[0] > policy.max_attempts:
        problem("caps", f"{calls[0]} invocations > max_attempts={policy.max_attempts}")
    if not ended_normally:
        return
    new = _RUNS[states_before:]
    if len(new) != 1:
        return  # nested policies or no event at all: not judged
    ev = [e[0] for e in new[0].__dict__.get("_rv_events", [])]
    STATS["retry_runs_checked"] += 1
    terms = [e for e in ev if e in TERMINALS]
    if len(terms) != 1 or ev[-1] not in TERMINALS or any(e not in TERMINALS and e != "retry" for e in ev):
        problem("events", f"event stream {ev} is not retry* terminal")
    k = 0
    for e in new[0].__dict__.get("_rv_events", []):
        if e[0] == "retry":
            k += 1
            if e[1] != k:
                problem("events", f"{k}-th retry event has attempt={e[1]}")


def _wrap_runner(mod, name, is_async):
    orig = getattr(mod, name)

    if is_async:

        @functools.wraps(orig)
        async def awrapper(*, policy, func, **kw):
            calls = [0]

            def counted():
                calls[0] += 1
                return func()

            before = len(_RUNS)
            normal = True
            try:
                return await orig(policy=policy, func=counted, **kw)
            except Exception:
                raise
            except BaseException:
                normal = False
                raise
            finally:
                try:
                    _check_run(policy, calls, normal, before)
                except Exception as x:  # noqa: BLE001
                    PROBLEMS.append({"test": _CURRENT_TEST[0], "kind": "monitor-error", "msg": repr(x)})

        return awrapper

    @functools.wraps(orig)
    def wrapper(*, policy, func, **kw):
        calls = [0]

        def counted():
            calls[0] += 1
            return func()

        before = len(_RUNS)
        normal = True
        try:
            return orig(policy=policy, func=counted, **kw)
        except Exception:
            raise
        except BaseException:
            normal = False
            raise
        finally:
            try:
                _check_run(policy, calls, normal, before)
            except Exception as x:  # noqa: BLE001
                PROBLEMS.append({"test": _CURRENT_TEST[0], "kind": "monitor-error", "msg": repr(x)})

    return wrapper


def pytest_configure(config):
    m_circuit.CircuitBreaker.__init__ = _cb_init
    for n in ("allow", "record_success", "record_failure", "record_cancel"):
        setattr(m_circuit.CircuitBreaker, n, _wrap_cb(n))
    m_budget.time = _TimeProxy()
    m_budget.Budget.__init__ = _b_init
    for n in ("consume", "remaining"):
        setattr(m_budget.Budget, n, _wrap_budget(n))
    m_state._RetryState.emit = _emit
    m_rs.run_sync_call = _wrap_runner(m_rs, "run_sync_call", False)
    m_rs.run_sync_execute = _wrap_runner(m_rs, "run_sync_execute", False)
    m_ra.run_async_call = _wrap_runner(m_ra, "run_async_call", True)
    m_ra.run_async_execute = _wrap_runner(m_ra, "run_async_execute", True)


def pytest_runtest_setup(item):
    _CURRENT_TEST[0] = item.nodeid
    del _RUNS[:]


def pytest_sessionfinish(session, exitstatus):
    out = os.environ.get("RV_SHADOW_OUT")
    data = {"stats": STATS, "problems": PROBLEMS[:50], "n_problems": len(PROBLEMS)}
    if out:
        with open(out, "w", encoding="utf-8") as f:
            json.dump(data, f, indent=1)
    print(f"\n[rv.pytest_shadow] {STATS} problems={len(PROBLEMS)}")
    for p in PROBLEMS[:10]:
        print("   ", p)
