"""Scenario runner: drives the real redress entry points with recording stubs.

A scenario is a JSON-serialisable dict (see `rv.gen`).  `run(sc, entry)` builds ONE policy object
from sc["cfg"], performs the calls listed in sc["calls"] on it through the chosen entry point
and returns one `Rec` per call: the boundary trace (every callback the library invoked, in
order, with virtual time), the final delivery (return value / raised object) and the scripted
objects, so that oracles can ask identity questions.

Nothing here predicts what the library should do; it only records.
"""

from __future__ import annotations

import asyncio
import concurrent.futures
import dataclasses
import math
import sys

from . import env

env.import_redress()

import redress  # noqa: E402
from redress import (  # noqa: E402
    AbortRetryError,
    AsyncPolicy,
    AsyncRetry,
    AsyncRetryPolicy,
    Budget,
    CircuitBreaker,
    CircuitOpenError,
    Classification,
    ErrorClass,
    Policy,
    Retry,
    RetryExhaustedError,
    RetryPolicy,
    RetryTimeline,
    SleepDecision,
    StopReason,
)
from redress import retry as retry_decorator  # noqa: E402

EC = ErrorClass
CLASS_NAMES = [k.name for k in ErrorClass]
NONRETRY = ("PERMANENT", "AUTH", "PERMISSION")

SYNC_ENTRIES = [
    "retry.call",
    "retry.execute",
    "policy.call",
    "policy.execute",
    "rp.call",
    "rp.execute",
    "retry.ctx",
    "policy.ctx",
    "rp.ctx",
    "deco.call",
]
ASYNC_ENTRIES = ["a" + e for e in SYNC_ENTRIES]
ENTRIES = SYNC_ENTRIES + ASYNC_ENTRIES
EXECUTE_ENTRIES = [e for e in ENTRIES if e.endswith(".execute")]
CALL_ENTRIES = [e for e in ENTRIES if not e.endswith(".execute")]
BREAKER_ENTRIES = [e for e in ENTRIES if e.lstrip("a").startswith(("policy.", "rp."))]


class OddBase(BaseException):
    """A BaseException subclass that is none of the well-known cancellation types."""


class HookBoom(Exception):
    pass


class BadStrError(Exception):
    """An Exception whose __str__ itself raises (formatting it must not be needed to contain it)."""

    def __str__(self):
        raise RuntimeError("cannot format")


class NonStrError(Exception):
    """An Exception whose __str__ returns a non-str (str(exc) raises TypeError)."""

    def __str__(self):
        return 5


class ScriptExc(Exception):
    def __init__(self, klass: str, idx: int, ra=None):
        super().__init__(f"{klass}@{idx}")
        self.rv_klass = klass
        self.idx = idx
        self.retry_after = ra


class ScriptRuntimeExc(RuntimeError):
    """The operation's own error happens to derive from RuntimeError (what executors, event loops and generators raise themselves)."""

    def __init__(self, klass: str, idx: int, ra=None):
        super().__init__(f"{klass}@{idx}")
        self.rv_klass = klass
        self.idx = idx
        self.retry_after = ra


class ScriptOSExc(ConnectionResetError):
    def __init__(self, klass: str, idx: int, ra=None):
        super().__init__(104, f"{klass}@{idx}")
        self.rv_klass = klass
        self.idx = idx
        self.retry_after = ra


@dataclasses.dataclass(frozen=True)
class ScriptFrozenExc(Exception):
    """An immutable error value (the shape of redress' own RetryExhaustedError): refuses every attribute assignment."""

    rv_klass: str
    idx: int
    retry_after: object = None


class ScriptEmptyExc(Exception):
    """An aggregate error sized over its collected sub-errors, raised with none: a falsy exception object."""

    def __init__(self, klass: str, idx: int, ra=None):
        super().__init__(f"{klass}@{idx}")
        self.rv_klass = klass
        self.idx = idx
        self.retry_after = ra

    def __len__(self):
        return 0


class ScriptTypeExc(TypeError):
    def __init__(self, klass: str, idx: int, ra=None):
        super().__init__(f"{klass}@{idx}")
        self.rv_klass = klass
        self.idx = idx
        self.retry_after = ra


class ScriptTimeoutExc(TimeoutError):
    """The operation's own timeout error: a subclass of the built-in TimeoutError that the classifier tells apart."""

    def __init__(self, klass: str, idx: int, ra=None):
        super().__init__(f"{klass}@{idx}")
        self.rv_klass = klass
        self.idx = idx
        self.retry_after = ra


class ScriptPoolCancelled(concurrent.futures.CancelledError):
    """concurrent.futures.CancelledError (Future.result() on a cancelled job): an ordinary Exception, unrelated to asyncio's."""

    def __init__(self, klass: str, idx: int, ra=None):
        super().__init__(f"{klass}@{idx}")
        self.rv_klass = klass
        self.idx = idx
        self.retry_after = ra


class ScriptBadStrExc(Exception):
    """An error that cannot be rendered: str() and repr() of it raise."""

    def __init__(self, klass: str, idx: int, ra=None):
        super().__init__(f"{klass}@{idx}")
        self.rv_klass = klass
        self.idx = idx
        self.retry_after = ra

    def __str__(self):
        # (only towards the library under test: the harness's own messages render it normally)
        if "/redress/" in sys._getframe(1).f_code.co_filename.replace("\\", "/"):
            raise AttributeError("'UpstreamError' object has no attribute 'code'")
        return f"ScriptBadStrExc({self.rv_klass}@{self.idx})"

    __repr__ = __str__


class ScriptEmptyTimeoutExc(TimeoutError):
    """The operation's own timeout error that is also a sized, empty (falsy) object."""

    def __init__(self, klass: str, idx: int, ra=None):
        super().__init__(f"{klass}@{idx}")
        self.rv_klass = klass
        self.idx = idx
        self.retry_after = ra

    def __len__(self):
        return 0


EXC_FAMILIES = ("plain", "runtime", "os", "frozen", "empty", "group", "type", "timeout", "poolcancel", "badstr", "emptytimeout", "status")
_STATUS_OF = {"TRANSIENT": 408, "SERVER_ERROR": 503, "RATE_LIMIT": 429, "CONCURRENCY": 409, "PERMANENT": 404, "AUTH": 401, "PERMISSION": 403}


class ScriptStatusExc(Exception):
    """One application error type for every failure, told apart by its HTTP status (the usual `ApiError(status)`): what
    default_classifier - the classifier of a policy without a retry component - goes by."""

    def __init__(self, klass: str, idx: int, ra=None):
        super().__init__(f"{klass}@{idx}")
        self.rv_klass = klass
        self.idx = idx
        self.retry_after = ra
        if klass in _STATUS_OF:
            self.status = _STATUS_OF[klass]


def mk_script_exc(family, klass, idx, ra=None):
    if family == "status":
        return ScriptStatusExc(klass, idx, ra)
    if family == "runtime":
        return ScriptRuntimeExc(klass, idx, ra)
    if family == "os":
        return ScriptOSExc(klass, idx, ra)
    if family == "frozen":
        return ScriptFrozenExc(klass, idx, ra)
    if family == "empty":
        return ScriptEmptyExc(klass, idx, ra)
    if family == "type":
        return ScriptTypeExc(klass, idx, ra)
    if family == "timeout":
        return ScriptTimeoutExc(klass, idx, ra)
    if family == "poolcancel":
        return ScriptPoolCancelled(klass, idx, ra)
    if family == "badstr":
        return ScriptBadStrExc(klass, idx, ra)
    if family == "emptytimeout":
        return ScriptEmptyTimeoutExc(klass, idx, ra)
    if family == "group":
        # what a TaskGroup / nursery with one failing child raises
        x = ExceptionGroup(f"{klass}@{idx}", [ScriptExc(klass, idx, ra)])
        x.rv_klass = klass
        x.idx = idx
        x.retry_after = ra
        return x
    return ScriptExc(klass, idx, ra)


class ScriptRes:
    __slots__ = ("rv_klass", "idx", "retry_after")

    def __init__(self, klass: str, idx: int, ra=None):
        self.rv_klass = klass
        self.idx = idx
        self.retry_after = ra

    def __repr__(self):
        return f"Res({self.rv_klass}@{self.idx})"


class ScriptVal:
    __slots__ = ("idx",)

    def __init__(self, idx: int):
        self.idx = idx

    def __repr__(self):
        return f"Val(@{self.idx})"


class BadReprError(Exception):
    """An error whose repr() itself fails (a repr that dereferences a connection that is gone)."""

    def __repr__(self):
        raise RuntimeError("no repr for you")


class EmptyHookError(Exception):
    """A sized error raised empty: a falsy exception object (from a hook)."""

    def __len__(self):
        return 0


class JobCancelled(asyncio.CancelledError, Exception):
    """The compatibility idiom from when CancelledError moved under BaseException: still an instance of the cancellation type."""


class OperatorInterrupt(KeyboardInterrupt, Exception):
    pass


class ServiceExit(SystemExit, Exception):
    pass


class ScriptAwaitableVal(ScriptVal):
    """A success value that happens to be awaitable (a job handle, a Task, a lazy result): it is the value, not something to unwrap."""

    __slots__ = ("awaited",)

    def __await__(self):
        self.awaited = True
        return iter(())


class ScriptResBadRepr(ScriptRes):
    """A rejected result object that cannot be rendered (a closed file, a proxy whose backend is gone)."""

    __slots__ = ()

    def __repr__(self):
        if "/redress/" in sys._getframe(1).f_code.co_filename.replace("\\", "/"):
            raise ValueError("I/O operation on closed file.")
        return f"ResBadRepr({self.rv_klass}@{self.idx})"

    __str__ = __repr__


def make_exc(name: str):
    """Exception objects used by fault plans, by name."""
    if name == "RuntimeError":
        return RuntimeError("injected")
    if name == "HookBoom":
        return HookBoom("injected")
    if name == "BadStrError":
        return BadStrError("injected")
    if name == "NonStrError":
        return NonStrError("injected")
    if name == "BadReprError":
        return BadReprError("injected")
    if name == "EmptyHookError":
        return EmptyHookError("injected")
    if name == "StopIteration":
        return StopIteration("injected")
    if name == "KeyError":
        return KeyError("injected")
    if name == "ValueError":
        return ValueError("injected")
    if name == "OverflowError":
        return OverflowError("(34, 'Numerical result out of range')")
    if name == "ZeroDivisionError":
        return ZeroDivisionError("float division by zero")
    if name == "AttributeError":
        return AttributeError("'NoneType' object has no attribute 'attempt'")
    if name == "TypeError":
        return TypeError("before_sleep() missing 1 required keyword-only argument: 'registry'")
    if name == "AbortRetryError":
        return AbortRetryError()
    if name == "RetryExhaustedError":
        return RetryExhaustedError(
            stop_reason=StopReason.MAX_ATTEMPTS_GLOBAL,
            attempts=9,
            last_class=EC.CONCURRENCY,
            last_exception=None,
            last_result=None,
        )
    if name == "CircuitOpenError":
        return CircuitOpenError("open")
    if name == "TimeoutError":
        return asyncio.TimeoutError()
    if name == "OSError":
        return OSError("injected")
    if name == "cancel":
        return asyncio.CancelledError()
    if name == "kbd":
        return KeyboardInterrupt()
    if name == "sysexit":
        return SystemExit(3)
    if name == "cancel_exc":
        return JobCancelled("withdrawn")
    if name == "kbd_exc":
        return OperatorInterrupt()
    if name == "sysexit_exc":
        return ServiceExit(3)
    if name == "genexit":
        return GeneratorExit()
    if name == "base":
        return OddBase("injected")
    raise KeyError(name)


CANCEL_KINDS = ("cancel", "kbd", "sysexit", "cancel_exc", "kbd_exc", "sysexit_exc")


@dataclasses.dataclass(frozen=True)
class QuotaClassification(Classification):
    """Classification is an ordinary frozen dataclass: applications subclass it to carry more to their strategies."""

    reset_in_s: float = 0.0


class SizedTimeline(RetryTimeline):
    def __len__(self):
        return len(self.events)


class _EmptyCallable:
    """A callable OBJECT rather than a function: sized and empty (so falsy) and, as it defines __eq__ without __hash__,
    unhashable - a list-subclass recorder, a deferral queue, a @dataclass with __call__."""

    __hash__ = None

    def __init__(self, fn):
        self.fn = fn

    def __call__(self, *a, **kw):
        return self.fn(*a, **kw)

    def __len__(self):
        return 0

    def __eq__(self, other):
        return self is other


COPIED_CALLABLE_CALLS = []  # (kind of callable) for every call that reached a COPY of a caller-supplied callable object


class _StatefulCallable:
    """A callable object with state of its own - a recorder with a list, a bound method of the caller's worker object: the library is to
    call THE object it was given.  A copy (copy.deepcopy of a config, dataclasses.asdict, pickling) answers the same way but leaves
    the caller's object uninformed; calls that arrive at a copy are noted."""

    def __init__(self, fn):
        self.fn = fn
        self.seen = []
        self._rv_identity = id(self)

    def __call__(self, *a, **kw):
        if id(self) != self._rv_identity:
            COPIED_CALLABLE_CALLS.append(getattr(self.fn, "__qualname__", repr(self.fn)))
        self.seen.append(len(a))
        return self.fn(*a, **kw)


class _NoTruthValue:
    def __init__(self, x):
        self.x = x

    def __bool__(self):
        raise self.x


_TERMINAL_EVENTS = {"success", "permanent_fail", "deadline_exceeded", "max_attempts_exceeded", "max_unknown_attempts_exceeded", "no_strategy_configured", "budget_exhausted", "scheduled", "aborted"}


class SpyBudget(Budget):
    """Real Budget; records consume()/remaining() at the boundary."""

    def __init__(self, sink, **kw):
        super().__init__(**kw)
        self._rv_sink = sink

    def consume(self, cost: int = 1, *a, **kw) -> bool:
        r = super().consume(cost, *a, **kw)  # (whatever further arguments the engine may pass are handed through)
        w = env.current()
        self._rv_sink().append(("budget", cost, r, w.now() if w else None))
        return r


class FalsySpyBudget(SpyBudget):
    """A budget object that defines __len__ (tokens in use): falsy while empty, still the configured budget."""

    def __len__(self):
        return 0


class SpyBreaker(CircuitBreaker):
    """Real CircuitBreaker; records the public protocol at the boundary."""

    def __init__(self, sink, **kw):
        super().__init__(**kw)
        self._rv_sink = sink

    _rv_announced = "closed"  # the state the breaker's own events have announced so far (it is born closed)

    def _rv_state(self):
        st = getattr(self, "_state", None)
        return st if st is not None else CircuitBreaker.state.fget(self)

    def _rv_note(self, event):
        st = {"circuit_opened": "open", "circuit_half_open": "half_open", "circuit_closed": "closed"}.get(event)
        if st:
            self._rv_announced = st

    def allow(self, *a, **kw):
        # (the spy reads the breaker's private field, not its `state` property: looking must not be what moves it)
        before = self._rv_state()
        d = super().allow(*a, **kw)
        w = env.current()
        self._rv_note(d.event)
        if self._rv_state() is not before and d.event is None:
            self._rv_sink().append(("br.silent", "allow", before.value, self._rv_state().value))
        elif d.event is None and d.state.value != self._rv_announced:
            # the decision names a state no event has ever announced: the transition happened somewhere it could not be reported from
            self._rv_sink().append(("br.silent", "a reader of `state`, or another unannounced path, before allow", self._rv_announced, d.state.value))
            self._rv_announced = d.state.value
        self._rv_sink().append(("br.allow", d.allowed, d.state.value, d.event, w.now() if w else None, self._rv_state().value))
        return d

    def _rv_interrupt(self, op):
        """Fault plan {"kind": "breaker", "op": ..., "exc": ...}: an interrupt (Ctrl-C, cancellation) that lands inside the
        breaker's own method, before it has changed anything - e.g. while it reads its clock."""
        h = getattr(self._rv_sink, "__self__", None)
        f = getattr(h, "fault", None)
        if f and f.get("kind") == "breaker" and f["op"] == op and h.cur is not None:
            h.cur.fault_fired += 1
            h.cur.trace.append(("fault", "breaker." + op, f["exc"]))
            raise make_exc(f["exc"])

    def record_success(self, *a, **kw):
        self._rv_interrupt("record_success")
        before = self._rv_state()
        r = super().record_success(*a, **kw)
        w = env.current()
        self._rv_note(r)
        self._rv_sink().append(("br.success", r, w.now() if w else None))
        after = self._rv_state()
        if after is not before and r is None:
            self._rv_sink().append(("br.silent", "record_success", before.value, after.value))
        return r

    def record_failure(self, klass, *a, **kw):
        # (extra arguments a changed library may pass are handed through: the spy observes the protocol, it does not define it)
        self._rv_interrupt("record_failure")
        before = self._rv_state()
        r = super().record_failure(klass, *a, **kw)
        w = env.current()
        self._rv_note(r)
        self._rv_sink().append(("br.failure", getattr(klass, "name", repr(klass)), r, w.now() if w else None))
        after = self._rv_state()
        if after is not before and r is None:
            self._rv_sink().append(("br.silent", "record_failure", before.value, after.value))
        return r

    def record_cancel(self, *a, **kw):
        before = self._rv_state()
        r = super().record_cancel(*a, **kw)
        w = env.current()
        self._rv_sink().append(("br.cancel", w.now() if w else None))
        after = self._rv_state()
        if after is not before:
            # record_cancel() has no way of announcing a transition (it returns nothing to emit): a state change in here is silent
            self._rv_sink().append(("br.silent", "record_cancel", before.value, after.value))
        return r


class FalsySpyBreaker(SpyBreaker):
    """A breaker whose truth value means "healthy": falsy whenever it is not closed, still the configured breaker."""

    def __bool__(self):
        return CircuitBreaker.state.fget(self).value == "closed"


class Rec:
    """Record of one call."""

    __slots__ = (
        "trace",
        "final",
        "objs",
        "cls_objs",
        "t_start",
        "env",
        "entry",
        "idx",
        "suspensions",
        "hits",
        "fault_fired",
        "timeline_obj",
        "counts",
        "t_start_abs",
    )

    def __init__(self, envd, entry, idx):
        self.trace = []
        self.final = None
        self.objs = {}
        self.cls_objs = {}
        self.t_start = 0.0
        self.t_start_abs = 0.0
        self.env = envd
        self.entry = entry
        self.idx = idx
        self.suspensions = 0
        self.hits = None
        self.fault_fired = 0
        self.timeline_obj = None
        self.counts = {}


def _tags(d):
    return tuple(sorted(d.items()))


class Harness:
    def __init__(self, sc, entry, world):
        self.sc = sc
        self.cfg = sc["cfg"]
        self.entry = entry
        self.world = world
        self.is_async = entry.startswith("a")
        base = entry[1:] if self.is_async else entry
        self.kind, self.meth = base.split(".")
        self.place = sc.get("place") or {}
        self.fault = sc.get("fault")
        self.cur: Rec | None = None
        self.use_abort = bool(sc.get("poll")) or any(
            c.get("abort_at") is not None or c.get("abort_after_op") is not None or c.get("abort_after_strategy") is not None or c.get("abort_after_terminal") for c in sc["calls"]
        )
        self.n = {}
        self.budget = None
        self.breaker = None
        self.obj = None
        self.decorated = None
        self._build()

    # ------------------------------------------------------------------ sinks
    def _sink(self):
        return self.cur.trace if self.cur is not None else self._pre

    def now(self):
        return self.world.t - self.cur.t_start_abs

    def count(self, name):
        i = self.n.get(name, 0)
        self.n[name] = i + 1
        return i

    def shape(self, fn):
        """The kind of object the caller's callbacks are (scenario key `cb_shape`)."""
        if fn is not None and self.sc.get("cb_shape") == "empty":
            return _EmptyCallable(fn)
        if fn is not None and self.sc.get("cb_shape") == "stateful":
            import inspect

            if not inspect.iscoroutinefunction(fn):  # (coroutine functions are recognised by type: they stay what they are)
                return _StatefulCallable(fn)
        return fn

    def cb_fault(self, name, defer=False):
        f = self.fault
        if f is None or f.get("kind") != "cb" or f["cb"] != name:
            # still count
            self.count("cb:" + name)
            return
        i = self.count("cb:" + name)
        if f["at"] == "always" or f["at"] == i:
            self.cur.fault_fired += 1
            x = make_exc(f["exc"])
            self.cur.objs["fault"] = x
            self.cur.trace.append(("fault", name, f["exc"]))
            if defer and f.get("via") == "bool":
                return x  # the caller hands back an answer whose truth value raises this
            raise x
        return None

    def hook_fault(self, name, place=None):
        f = self.fault
        i = self.count("hook:" + name)
        j = self.count("hook:" + name + "@" + place) if place else i
        if f is None or f.get("kind") != "hook" or f["hook"] != name:
            return
        if f.get("place"):
            # only the hook configured at that level fails (a policy-level hook and a per-call hook are different objects)
            if place != f["place"]:
                return
            i = j
        if f["at"] == "always" or f["at"] == i:
            self.cur.fault_fired += 1
            raise make_exc(f["exc"])

    # ------------------------------------------------------------- callbacks
    def classifier(self, e):
        rec = self.cur
        idx = getattr(e, "idx", None)
        rec.trace.append(("classify", idx, type(e).__name__))
        self.cb_fault("classifier")
        k = getattr(e, "rv_klass", None) or "UNKNOWN"
        if self.cfg.get("use_classification"):
            c = self.mk_classification(EC[k], getattr(e, "retry_after", None), idx)
            rec.cls_objs["last"] = c
            return c
        rec.cls_objs["last"] = None
        return EC[k]

    def mk_classification(self, klass, ra, idx):
        """Plain Classification on even attempts, an application subclass with a field of its own on odd ones."""
        if isinstance(idx, int) and idx % 2:
            return QuotaClassification(klass=klass, retry_after_s=ra, reset_in_s=float(idx))
        return Classification(klass=klass, retry_after_s=ra)

    def result_classifier(self, r):
        rec = self.cur
        if isinstance(r, ScriptRes):
            rec.trace.append(("rclassify", r.idx, True))
            self.cb_fault("rclassifier")
            if self.cfg.get("use_classification"):
                c = self.mk_classification(EC[r.rv_klass], r.retry_after, r.idx)
                rec.cls_objs["last"] = c
                return c
            rec.cls_objs["last"] = None
            return EC[r.rv_klass]
        if r is None and rec.counts.get("none_result") is not None:
            k, ra, idx = rec.counts.pop("none_result")
            rec.trace.append(("rclassify", idx, True))
            self.cb_fault("rclassifier")
            if self.cfg.get("use_classification"):
                c = Classification(klass=EC[k], retry_after_s=ra)
                rec.cls_objs["last"] = c
                return c
            rec.cls_objs["last"] = None
            return EC[k]
        rec.trace.append(("rclassify", getattr(r, "idx", None), False))
        self.cb_fault("rclassifier")
        return None

    def mk_strategy(self, name):
        h = self

        def body(attempt, klassname, prev, remaining, cause, ra, cls_ok):
            rec = h.cur
            i = h.count("strat")
            vals = rec.env["strat_values"]
            v = vals[i % len(vals)]
            if v == "nan":
                v = math.nan
            elif v == "inf":
                v = math.inf
            elif v == "-inf":
                v = -math.inf
            elif v == "hugeint":
                v = 10**400  # a finite number of seconds that no float can hold
            elif v == "-hugeint":
                v = -(10**400)
            elif v == "none":
                v = None  # a strategy with a branch that forgets its return statement
            rec.trace.append(
                ("strategy", name, attempt, klassname, prev, remaining, cause, ra, v, cls_ok, h.now())
            )
            h.cb_fault("strategy")
            sd = rec.env.get("strat_dur")
            if sd:
                h.world.t += sd[(h.n.get("cb:strategy", 1) - 1) % len(sd)]  # a strategy that takes time to answer
            return v

        if name in self.cfg.get("builtin_strategies", ()):
            # the library's OWN strategy factories registered directly (no wrapper of ours around the object the policy holds): what an
            # everyday user writes.  They leave no "strategy" trace event; the checks that use this judge what reaches the sleeper.
            import redress.strategies as _rs

            fname, base, cap = self.cfg["builtin_strategies"][name]
            return getattr(_rs, fname)(base_s=base, max_s=cap)

        if name in self.cfg.get("legacy", ()):

            def legacy(attempt, klass, prev_sleep_s):
                return body(attempt, klass.name, prev_sleep_s, "n/a", "n/a", "n/a", True)

            return legacy

        def ctxs(ctx):
            want = h.cur.cls_objs.get("last")
            ok = (ctx.classification is want) if want is not None else True
            return body(
                ctx.attempt,
                ctx.klass.name,
                ctx.prev_sleep_s,
                ctx.remaining_s,
                ctx.cause,
                ctx.classification.retry_after_s,
                ok,
            )

        if name in self.cfg.get("strategy_objects", ()):
            # a strategy OBJECT with the optional feedback protocol (record_failure / record_success), like adaptive()

            falsy = name in self.cfg.get("strategy_objects_falsy", ())

            class StrategyObject:
                def __call__(self, ctx):
                    return ctxs(ctx)

                def __len__(self):
                    # e.g. a schedule object with no explicit steps: falsy, yet a perfectly valid registered strategy
                    if falsy:
                        return 0
                    return 1

                def record_failure(self, klass=None):
                    rec = h.cur
                    i = h.count("srec_failure")
                    rd = rec.env.get("rf_dur")
                    if rd:
                        h.world.t += rd[i % len(rd)]  # feedback bookkeeping that takes time
                    rec.trace.append(("srec", "failure", name, getattr(klass, "name", None), h.now()))

                def record_success(self):
                    h.cur.trace.append(("srec", "success", name, None, h.now()))

            return StrategyObject()

        return ctxs

    def op_body(self):
        if self.sc.get("op_cm") and not any(o[0] == "sp" and o[1] == "nested_exh" for o in self.cur.env["outcomes"]) and "frozen" not in (self.sc.get("exc_family") or ()):
            # the operation does its work inside a generator-based context manager (`with transaction(): ...`, an ExitStack): whatever
            # it raises - its own errors, AbortRetryError, cancellation types - travels through contextlib's __exit__, which assigns
            # __traceback__ on the exception object.  (Frozen error objects cannot make that trip - the library's own
            # RetryExhaustedError included, see DESIGN section 8 - so scenarios raising those are left alone.)
            import contextlib

            @contextlib.contextmanager
            def transaction():
                yield

            with contextlib.ExitStack() as stack:
                stack.enter_context(transaction())
                return self._op_body()
        return self._op_body()

    def _op_body(self):
        at = self.cfg.get("attempt_timeout")
        if at and at > 1.0e9 and not self.is_async:
            # "no timeout" spelled as a huge number of seconds: the attempt runs in a worker thread and must still be running when the
            # runner starts waiting for it (a result that is already there is returned without any wait), so it takes a few real ms
            env._REAL["sleep"](0.004)
        rec = self.cur
        i = self.count("op")
        rec.trace.append(("op", i + 1, self.now()))
        e = rec.env
        d = e["durations"]
        self.world.t += d[i % len(d)]
        o = e["outcomes"][i % len(e["outcomes"])]
        kind = o[0]
        if kind == "ok":
            v = (ScriptAwaitableVal if self.sc.get("val_kind") == "odd" else ScriptVal)(i)
            rec.objs[i] = v
            return v
        if kind == "exc":
            fams = self.sc.get("exc_family") or ("plain",)
            x = mk_script_exc(fams[i % len(fams)], o[1], i, o[2] if len(o) > 2 else None)
            rec.objs[i] = x
            ch = self.sc.get("exc_chain")
            if ch:
                # the failure was raised while another error was being handled, or `from` one: a fallback that failed after an inner
                # circuit rejected the primary, a domain error wrapping the timeout underneath.  It is still THIS failure that counts.
                try:
                    if ch == "open_context":
                        x.__context__ = CircuitOpenError("inner circuit open")
                    elif ch == "open_cause":
                        x.__cause__ = CircuitOpenError("inner circuit open")
                    elif ch == "timeout_cause":
                        x.__cause__ = TimeoutError("inner call timed out")
                    elif ch == "abort_context":
                        x.__context__ = AbortRetryError()
                    elif ch == "scripted_cause":
                        # `raise DomainError(...) from low_level_error`: the low-level error is one the classifier knows well
                        x.__cause__ = ScriptExc("TRANSIENT" if o[1] != "TRANSIENT" else "RATE_LIMIT", -1, None)
                    if x.__cause__ is not None:
                        x.rv_cause = x.__cause__
                except Exception:  # noqa: BLE001  (frozen exception objects)
                    pass
            raise x
        if kind == "exc_same":
            # a client that caches its error object: the SAME instance is raised again on consecutive attempts
            x = rec.objs.get("cached_exc")
            if x is None:
                x = ScriptExc(o[1], i, o[2] if len(o) > 2 else None)
                rec.objs["cached_exc"] = x
            # the client mutates its one error object and raises it again: the classifier's answer may differ
            x.rv_klass = o[1]
            x.retry_after = o[2] if len(o) > 2 else None
            x.idx = i
            rec.objs[i] = x
            raise x
        if kind == "res":
            r = (ScriptResBadRepr if self.sc.get("val_kind") == "odd" else ScriptRes)(o[1], i, o[2] if len(o) > 2 else None)
            rec.objs[i] = r
            return r
        if kind == "res_none":
            # "poll until the value is there": None itself is the rejected result
            rec.objs[i] = None
            rec.counts["none_result"] = (o[1], o[2] if len(o) > 2 else None, i)
            return None
        if kind == "sp":
            name = o[1]
            if name == "abort" and self.sc.get("abort_origin") == "nested":
                # the abort comes up through a nested policy of the operation's own (its abort predicate said stop): the object the inner
                # machinery raised, with whatever that machinery put on it
                x = None
                try:
                    redress.Retry(classifier=lambda e_: EC["TRANSIENT"], strategy=lambda c_: 0.0).call(lambda: None, abort_if=lambda: True)
                except AbortRetryError as ax:
                    x = ax
                if x is None:
                    x = AbortRetryError()
            elif name == "abort":
                # the documented public alias on odd attempts, the class itself on even ones
                x = (redress.AbortRetry if i % 2 else AbortRetryError)()
            elif name == "nested_exh":
                x = RetryExhaustedError(
                    stop_reason=StopReason.MAX_ATTEMPTS_GLOBAL,
                    attempts=7,
                    last_class=EC[o[2]] if len(o) > 2 and o[2] else None,
                    last_exception=None,
                    last_result=None,
                )
            elif name == "nested_open":
                x = CircuitOpenError("open")
                x.rv_klass = o[2] if len(o) > 2 and o[2] else "UNKNOWN"
            elif name == "timeout":
                # an ordinary failure whose type is TimeoutError (what asyncio.wait_for / socket timeouts raise)
                x = asyncio.TimeoutError("scripted timeout")
                x.rv_klass = o[2] if len(o) > 2 and o[2] else "TRANSIENT"
                if i % 2:
                    # what an inner asyncio.wait_for / asyncio.timeout raises: TimeoutError chained from CancelledError
                    x.__cause__ = asyncio.CancelledError()
                    x.rv_cause = x.__cause__
            else:
                x = make_exc(name)
            try:
                x.idx = i
            except Exception:
                pass
            rec.objs[i] = x
            raise x
        raise AssertionError(o)

    def sleeper_body(self, place, s):
        rec = self.cur
        i = self.count("sleep")
        rec.trace.append(("sleep", place, s, self.now()))
        self.cb_fault("sleeper")
        ov = rec.env["overshoot"]
        if s == s and s > 0 and s != math.inf:
            self.world.t += s
        self.world.t += ov[i % len(ov)]

    def abort_if(self):
        rec = self.cur
        i = self.count("poll")
        at = rec.env.get("abort_at")
        ans = at is not None and i >= at
        aop = rec.env.get("abort_after_op")
        if aop is not None and self.n.get("op", 0) >= aop:
            ans = True  # sticky flag raised while attempt #aop was in flight
        ast = rec.env.get("abort_after_strategy")
        if ast is not None and self.n.get("strat", 0) >= ast:
            ans = True  # sticky flag raised while the strategy was computing the ast-th delay
        if rec.env.get("abort_after_terminal") and any(e_[0] == "metric" and e_[1] in _TERMINAL_EVENTS for e_ in rec.trace):
            ans = True  # a shutdown flag raised by whoever watches the event stream, once the run has reported its terminal event
        rec.trace.append(("poll", i, ans, self.now()))
        if i == 0 and rec.env.get("preflight_poll_dur"):
            # the predicate's first evaluation costs time (it lazily connects to a flag service): billed to the call like everything else
            self.world.t += rec.env["preflight_poll_dur"]
        x = self.cb_fault("abort_if", defer=True)
        if x is not None:
            # "should I stop?" answered with an object that cannot be reduced to a bool (an array, a lazy proxy whose backend is gone)
            return _NoTruthValue(x)
        enc = self.sc.get("poll_kind", "bool")
        if enc == "int":
            return (i + 3) if ans else 0
        if enc == "str":
            return "stop" if ans else ""
        if enc == "obj":
            return [i] if ans else []
        return ans

    def mk_handler(self, place):
        h = self

        def handler(ctx, s):
            rec = h.cur
            i = h.count("handler")
            ds = rec.env.get("handler") or ["sleep"]
            d = ds[i % len(ds)]
            spelled = None
            if d.startswith("bogus:"):
                # not a SleepDecision but the plain string that spells one ("sleep" / "defer" / "abort"): as invalid as any other answer
                spelled, d = str(d.split(":", 1)[1]), "bogus"
            rec.trace.append(("handler", place, ctx.attempt, s, d))
            h.cb_fault("handler")
            hd = rec.env.get("handler_dur")
            if hd:
                h.world.t += hd[i % len(hd)]  # a slow handler: time passes before the sleep starts
            if d == "bogus":
                return "".join(spelled) if spelled else "sleep-ish"  # a fresh str object, never the enum member
            return SleepDecision(d)

        return handler

    def mk_before_sleep(self, place):
        h = self
        def slow():
            bd = h.cur.env.get("bs_dur")
            if bd:
                h.world.t += bd[h.n.get("hook:before_sleep", 0) % len(bd)]

        if self.is_async and self.sc.get("bs_kind") in ("async", "lambda"):

            async def abs_(ctx, s):
                h.cur.trace.append(("before_sleep", place, ctx.attempt, s))
                await h.susp("before_sleep")
                slow()
                h.hook_fault("before_sleep", place)

            if self.sc.get("bs_kind") == "lambda":
                return lambda ctx, s: abs_(ctx, s)
            f = self.fault
            if f and f.get("kind") == "hook" and f.get("hook") == "before_sleep" and f.get("when") == "call":
                # a coroutine FUNCTION can fail when it is called, before any coroutine exists: arguments are bound first (wrong arity,
                # a missing keyword-only parameter, a partial with a keyword the function does not take)
                def strict(ctx, s):
                    h.cur.trace.append(("before_sleep", place, ctx.attempt, s))
                    slow()
                    h.hook_fault("before_sleep", place)  # raises at the planned invocation ...

                    async def rest():
                        await h.susp("before_sleep")

                    return rest()  # ... and otherwise hands back the coroutine, like any `async def`

                import inspect

                inspect.markcoroutinefunction(strict)
                return strict
            return abs_

        def bs(ctx, s):
            h.cur.trace.append(("before_sleep", place, ctx.attempt, s))
            slow()
            h.hook_fault("before_sleep", place)

        return bs

    def mk_sleeper(self, place):
        h = self
        kind = self.sc.get("sleeper_kind", "async")
        if kind == "falsy":
            # a callable sleeper object that happens to be falsy (defines __bool__/__len__): it is still the configured sleeper
            if self.is_async:

                class FalsyAsyncSleeper:
                    def __bool__(self):
                        return False

                    async def __call__(self, s):
                        await h.susp("sleeper")
                        h.sleeper_body(place, s)

                return FalsyAsyncSleeper()

            class FalsySleeper:
                def __len__(self):
                    return 0

                def __call__(self, s):
                    h.sleeper_body(place, s)

            return FalsySleeper()
        if self.is_async and kind in ("async", "lambda", "callable"):

            turns = int(self.sc.get("sleeper_turns", 1))

            async def asl(s):
                # a sleeper that really suspends: `turns` trips through the scheduler before the sleep is over
                for _ in range(turns):
                    await h.susp("sleeper")
                h.sleeper_body(place, s)

            def requested(s):
                # (noted when the sleeper is CALLED: what comes back still has to be awaited for the time to pass)
                h.cur.trace.append(("sleep-req", place, s, h.now()))

            if kind == "lambda":
                # returns an awaitable without being a coroutine function
                def lam(s):
                    requested(s)
                    return asl(s)

                return lam
            if kind == "callable":

                class Sleeper:
                    def __call__(self, s):
                        requested(s)
                        return asl(s)

                return Sleeper()
            return asl

        def sl(s):
            h.sleeper_body(place, s)

        return sl

    def on_metric(self, event, attempt, sleep_s, tags, rec=None):
        # `rec`: the call this hook object was handed to (a hook kept by the library beyond its call writes into THAT call's record)
        (rec or self.cur).trace.append(("metric", event, attempt, sleep_s, _tags(tags)))
        if event == "budget_exhausted" and self.budget is not None:
            # ground truth for "the window really is full", however the engine learnt it (refused consume(), remaining(), ...)
            (rec or self.cur).trace.append(("budget_level", Budget.remaining(self.budget), self.now()))
        if self.sc.get("hook_edits_tags"):
            # an adapter that labels the dict it was handed (tags["attempt"] = ..., tags.update(static_labels)): the dict belongs to this
            # one delivery, so the edit may show in this event's log fields but never in what any LATER event delivers
            tags["rv_label"] = (event, attempt)
        self.hook_fault("metric")

    def on_log(self, event, fields, rec=None):
        if self.sc.get("hook_edits_tags"):
            fields = {k: v for k, v in fields.items() if k != "rv_label" or v != (event, fields.get("attempt"))}  # this delivery's own label
        if self.sc.get("hook_set") == "log":
            # only a log sink is attached: what it receives is the run's event stream - mirrored as the metric-shaped record the view
            # segments by (attempt and sleep_s are fields of the log record)
            tg = {k: v for k, v in fields.items() if k not in ("attempt", "sleep_s")}
            (rec or self.cur).trace.append(("metric", event, fields.get("attempt"), fields.get("sleep_s"), _tags(tg)))
            if event == "budget_exhausted" and self.budget is not None:
                # the same ground truth the metric-side recorder takes
                (rec or self.cur).trace.append(("budget_level", Budget.remaining(self.budget), self.now()))
        (rec or self.cur).trace.append(("log", event, _tags(fields)))
        self.hook_fault("log")

    def mk_attempt_hook(self, which, place):
        h = self

        def hook(ctx):
            h.cur.trace.append(
                (
                    which,
                    place,
                    ctx.attempt,
                    ctx.decision.value if ctx.decision is not None else None,
                    ctx.stop_reason.value if ctx.stop_reason is not None else None,
                    ctx.cause,
                    ctx.sleep_s,
                )
            )
            h.cb_fault(which)

        return self.shape(hook)

    async def susp(self, tag):
        self.cur.suspensions += 1
        if self.world.manual:
            await env.Suspend(tag)
        else:
            await env._REAL["asleep"](0)

    # ------------------------------------------------------------------ build
    def _build(self):
        cfg = self.cfg
        self._pre = []
        b = cfg.get("budget")
        if b:
            self.budget = (FalsySpyBudget if b.get("falsy") else SpyBudget)(self._sink, max_retries=b["max"], window_s=b["window"])
        br = cfg.get("breaker")
        if br and self.kind in ("policy", "rp"):
            kw = dict(
                failure_threshold=br["threshold"],
                window_s=br["window"],
                recovery_timeout_s=br["recovery"],
            )
            if br.get("trip_on") is not None:
                kw["trip_on"] = {EC[k] for k in br["trip_on"]}
            if br.get("class_thresholds"):
                kw["class_thresholds"] = {EC[k]: v for k, v in br["class_thresholds"].items()}
            if br.get("epoch"):
                # the breaker is given its own clock (clock=time.time, a clock shared with another component): it ticks like the
                # process clock but its readings are a constant away from time.monotonic()
                import time as _time

                _ep = float(br["epoch"])
                kw["clock"] = lambda: _time.monotonic() + _ep
            self.breaker = (FalsySpyBreaker if br.get("falsy") else SpyBreaker)(self._sink, **kw)
        place = self.place
        pol_kw = {}
        self.call_kw = {}
        deco = self.kind == "deco"

        def put(name, mk, where):
            # where: none|policy|call|both ; decorator has only construction-time placement
            if where in (None, "none"):
                return
            if deco:
                pol_kw[name] = self.shape(mk("policy"))
                return
            if where in ("policy", "both"):
                pol_kw[name] = self.shape(mk("policy"))
            if where in ("call", "both"):
                self.call_kw[name] = self.shape(mk("call"))

        put("sleep", self.mk_handler, place.get("handler", "none"))
        put("before_sleep", self.mk_before_sleep, place.get("before_sleep", "none"))
        put("sleeper", self.mk_sleeper, place.get("sleeper", "call"))
        hooks_where = place.get("hooks", "none")
        self.hook_kw_policy = {}
        if hooks_where != "none":
            if self.kind == "rp" and self.sc.get("via_attrs") and not self.sc.get("via_config") and hooks_where in ("policy", "both"):
                # ... except through attribute assignment on the sugar object, which forwards to its Retry
                self.hook_kw_policy["on_attempt_start"] = self.mk_attempt_hook("astart", "policy")
                self.hook_kw_policy["on_attempt_end"] = self.mk_attempt_hook("aend", "policy")
                if hooks_where == "both":
                    self.call_kw["on_attempt_start"] = self.mk_attempt_hook("astart", "call")
                    self.call_kw["on_attempt_end"] = self.mk_attempt_hook("aend", "call")
            elif deco or self.kind == "rp":
                # RetryPolicy/@retry take attempt hooks per call only
                self.call_kw["on_attempt_start"] = self.mk_attempt_hook("astart", "call")
                self.call_kw["on_attempt_end"] = self.mk_attempt_hook("aend", "call")
            else:
                if hooks_where in ("policy", "both"):
                    self.hook_kw_policy["on_attempt_start"] = self.mk_attempt_hook("astart", "policy")
                    self.hook_kw_policy["on_attempt_end"] = self.mk_attempt_hook("aend", "policy")
                if hooks_where in ("call", "both"):
                    self.call_kw["on_attempt_start"] = self.mk_attempt_hook("astart", "call")
                    self.call_kw["on_attempt_end"] = self.mk_attempt_hook("aend", "call")

        self.has_retry = not cfg.get("no_retry")
        kw = dict(
            classifier=self.shape(self.classifier),
            result_classifier=self.shape(self.result_classifier) if cfg.get("result_classifier", True) else None,
            strategy=self.mk_strategy("default") if cfg.get("default_strategy", True) else None,
            strategies={EC[k]: self.mk_strategy(k) for k in cfg.get("class_strategies", ())},
            budget=self.budget,
            deadline_s=cfg["deadline_s"],
            max_attempts=cfg["max_attempts"],
            max_unknown_attempts=cfg.get("max_unknown"),
            per_class_max_attempts={EC[k]: v for k, v in (cfg.get("per_class") or {}).items()},
            **pol_kw,
        )
        if cfg.get("attempt_timeout"):
            kw["attempt_timeout_s"] = cfg["attempt_timeout"]
        if cfg.get("omit_limits"):
            # the caller leaves the limits to the library: deadline_s, max_attempts and max_unknown_attempts are not passed at all, and the
            # documented defaults (60 s, 6 attempts, 2 UNKNOWN retries - the values this scenario's cfg holds) are what must apply
            # (a limit the check has since set to something else is passed like any other)
            for name, key, default in (("deadline_s", "deadline_s", 60.0), ("max_attempts", "max_attempts", 6), ("max_unknown_attempts", "max_unknown", 2)):
                if cfg.get(key) == default and type(cfg.get(key)) is type(default):
                    kw.pop(name)
        self.retry_kw = kw
        A = self.is_async
        k = self.kind
        via_config = bool(self.sc.get("via_config")) and not self.hook_kw_policy and k in ("retry", "policy", "rp")

        via_attrs = bool(self.sc.get("via_attrs")) and not via_config and k in ("retry", "policy", "rp")

        def mk_retry(cls):
            if via_attrs:
                # the third documented way to configure: build with the mandatory arguments, then assign the public attributes
                # (on the object the caller holds: the Retry itself, the Retry inside a Policy, or the RetryPolicy sugar, which forwards)
                import datetime

                o = cls(classifier=kw["classifier"], strategy=kw["strategy"], strategies=kw["strategies"]) if cls in (Retry, AsyncRetry) else \
                    cls(classifier=kw["classifier"], strategy=kw["strategy"], strategies=kw["strategies"])
                for name in ("result_classifier", "sleep", "before_sleep", "sleeper", "budget", "max_attempts"):
                    if name in kw:
                        setattr(o, name, kw[name])
                if "deadline_s" in kw:
                    o.deadline = datetime.timedelta(seconds=kw["deadline_s"])
                if "max_unknown_attempts" in kw:
                    o.max_unknown_attempts = kw["max_unknown_attempts"]
                o.per_class_max_attempts = dict(kw["per_class_max_attempts"])
                if "attempt_timeout_s" in kw:
                    o.attempt_timeout_s = kw["attempt_timeout_s"]
                for name, fn in self.hook_kw_policy.items():
                    setattr(o, name, fn)
                return o
            if not via_config:
                return cls(**kw, **self.hook_kw_policy)
            # the documented alternative construction path: a RetryConfig bundle + from_config()
            from redress.config import RetryConfig

            conf = RetryConfig(
                **{n_: kw[n_] for n_ in ("deadline_s", "max_attempts", "max_unknown_attempts") if n_ in kw},
                attempt_timeout_s=kw.get("attempt_timeout_s"),
                per_class_max_attempts=kw["per_class_max_attempts"],
                default_strategy=kw["strategy"],
                class_strategies=kw["strategies"] or None if kw["strategy"] is not None else kw["strategies"],
                result_classifier=kw["result_classifier"],
                sleep=kw.get("sleep"),
                before_sleep=kw.get("before_sleep"),
                sleeper=kw.get("sleeper"),
                budget=kw["budget"],
            )
            return cls.from_config(conf, classifier=kw["classifier"])

        if k == "retry":
            self.obj = mk_retry(AsyncRetry if A else Retry)
        elif k == "policy":
            r = None
            if self.has_retry:
                r = mk_retry(AsyncRetry if A else Retry)
            self.obj = (AsyncPolicy if A else Policy)(retry=r, circuit_breaker=self.breaker)
        elif k == "rp":
            self.obj = mk_retry(AsyncRetryPolicy if A else RetryPolicy)
            if self.breaker is not None:
                # the sugar takes no breaker argument: the only way to give it one is through its inner policy (`.policy` is a public
                # property, `circuit_breaker` a public attribute) - every entry point of the sugar then goes through that breaker
                self.obj.policy.circuit_breaker = self.breaker
        elif k == "deco":
            self.obj = None
        else:
            raise KeyError(self.entry)
        # bring budget / breaker to their scripted initial state (recorded in self._pre, not in a call)
        if b:
            for _ in range(b.get("prefill", 0)):
                Budget.consume(self.budget)
        if self.breaker is not None:
            for step in br.get("pre", ()):
                # through the spy: recorded in self._pre (not in any call's trace) so shadow models can follow
                if step[0] == "fail":
                    self.breaker.record_failure(EC[step[1]])
                elif step[0] == "adv":
                    self.world.t += step[1]
                elif step[0] == "allow":
                    self.breaker.allow()
                elif step[0] == "success":
                    self.breaker.record_success()

    # -------------------------------------------------------------------- run
    def _common_call_kw(self, rec):
        e = rec.env
        ckw = dict(self.call_kw)
        if not self.sc.get("no_hooks"):
            if self.kind == "deco":
                ckw["on_metric"] = self.shape(self.on_metric)
                ckw["on_log"] = self.shape(self.on_log)
            elif (rec.idx or 0) % 2:
                # a fresh pair of hook objects for every call, each tied to its own call's record
                ckw["on_metric"] = self.shape(lambda event, attempt, sleep_s, tags, _r=rec: self.on_metric(event, attempt, sleep_s, tags, _r))
                ckw["on_log"] = self.shape(lambda event, fields, _r=rec: self.on_log(event, fields, _r))
            else:
                # hooks are plain callables taking positional arguments: the caller's own parameter names are nobody's business
                ckw["on_metric"] = self.shape(lambda name, n, delay, labels, _r=rec: self.on_metric(name, n, delay, labels, _r))
                ckw["on_log"] = self.shape(lambda name, record, _r=rec: self.on_log(name, record, _r))
        only = self.sc.get("hook_set", "both")
        if only == "log":
            ckw.pop("on_metric", None)  # just a log sink attached
        elif only == "metric":
            ckw.pop("on_log", None)
        if self.cfg.get("operation"):
            ckw["operation"] = self.cfg["operation"]
        if self.use_abort:
            ckw["abort_if"] = self.shape(self.abort_if)
        for k_ in e.get("drop_call_kw") or ():
            # this call passes no per-call handler / hook / sleeper although other calls on the same object do
            ckw.pop(k_, None)
        return ckw

    def _reconfigure(self, st):
        """The caller reassigns public attributes of the policy object between two calls (tests do `policy.max_attempts = 2`)."""
        import datetime

        tgt = self.obj
        if tgt is None:
            return False  # @retry: no object to reconfigure
        if self.kind == "policy":
            tgt = getattr(self.obj, "retry", None)
            if tgt is None:
                return False
        if "deadline_s" in st:
            tgt.deadline = datetime.timedelta(seconds=st["deadline_s"])
        if "max_attempts" in st:
            tgt.max_attempts = st["max_attempts"]
        if "max_unknown" in st:
            tgt.max_unknown_attempts = st["max_unknown"]
        if "per_class" in st:
            tgt.per_class_max_attempts = {EC[k_]: v for k_, v in st["per_class"].items()}
        return True

    def _begin(self, k):
        envd = self.sc["calls"][k]
        if envd.get("set"):
            self._reconfigure(envd["set"])
        rec = Rec(envd, self.entry, k)
        self.world.t += envd.get("gap", 0.0)
        if self.breaker is not None and self.sc.get("state_reader"):
            # somebody looks at the breaker between calls (a health endpoint, a dashboard scrape): `state` is a read
            try:
                self.breaker.state
            except Exception:  # noqa: BLE001
                pass
        rec.t_start = self.world.now()
        rec.t_start_abs = self.world.t
        self.world.call_t0 = self.world.t
        self.cur = rec
        self.n = {}
        self.world.trace = rec.trace
        return rec

    def _timeline_for(self, tl):
        if tl == "objshared":
            # ONE caller-supplied RetryTimeline reused for every call of the scenario (it accumulates)
            if getattr(self, "_shared_timeline", None) is None:
                self._shared_timeline = RetryTimeline()
            return self._shared_timeline
        if self.sc.get("cb_shape") == "empty":
            # the caller's own timeline type: a subclass that can be sized (len(timeline) == number of events), hence falsy while empty
            return SizedTimeline()
        return RetryTimeline()

    def _deco_build(self, ckw, fn):
        kw = dict(self.retry_kw)
        shared = retry_decorator(**kw, **ckw)
        wrapped = shared(fn)
        if self.sc.get("ctx_decoy"):
            # one decorator object for several functions (`resilient = retry(...)`, then `@resilient` on each): the other function
            # keeps its own name, and this one keeps its own
            if self.is_async:

                async def fetch_invoice():
                    return None

            else:

                def fetch_invoice():
                    return None

            self.decoy_shared = shared(fetch_invoice)
        if self.sc.get("ctx_decoy"):
            # the SAME function is wrapped a second time with other settings (a patient variant next to the fast one); both wrappers
            # stay alive, the first one is the one that gets called
            self.decoy_decorated = retry_decorator(
                max_attempts=kw.get("max_attempts", 6) + 3,
                deadline_s=kw.get("deadline_s", 60.0) * 2 + 10.0,
                classifier=lambda e: EC.TRANSIENT,
                strategy=lambda ctx: 0.0,
            )(fn)
        return wrapped

    def call_sync(self, k):
        rec = self._begin(k)
        ckw = self._common_call_kw(rec)
        h = self

        def op():
            return h.op_body()

        try:
            if self.meth == "execute":
                tl = self.sc.get("timeline")
                if tl in ("obj", "objshared"):
                    rec.timeline_obj = self._timeline_for(tl)
                    rec.objs["tl_before"] = len(rec.timeline_obj.events)
                    ckw["capture_timeline"] = rec.timeline_obj
                elif tl:
                    ckw["capture_timeline"] = True
                r = self.obj.execute(op, **ckw)
            elif self.meth == "ctx" and self.sc.get("ctx_block_shared"):
                # ONE `with policy.context(...) as call:` block around all the calls of the scenario (a worker's loop inside the block)
                if getattr(self, "_shared_call", None) is None:
                    ckw2 = dict(ckw)
                    if "on_metric" in ckw2:
                        ckw2["on_metric"] = self.shape(self.on_metric)
                    if "on_log" in ckw2:
                        ckw2["on_log"] = self.shape(self.on_log)
                    self._shared_cm = self.obj.context(**ckw2)
                    self._shared_call = self._shared_cm.__enter__()
                r = self._shared_call(op)
            elif self.meth == "ctx":
                with self.obj.context(**ckw) as call:
                    if self.sc.get("ctx_decoy"):
                        # another context object of the same policy is created (and used for nothing) while this one is in use
                        with self.obj.context(on_log=lambda *a: None):
                            r = call(op)
                    else:
                        r = call(op)
            elif self.kind == "deco":
                if self.decorated is None:
                    self.decorated = self._deco_build(ckw, op)
                r = self.decorated()
            else:
                r = self.obj.call(op, **ckw)
            rec.final = ("return", r)
        except BaseException as x:  # noqa: BLE001 - the harness observes everything
            rec.final = ("raise", x)
        rec.counts = dict(self.n)
        if rec.timeline_obj is not None:
            rec.objs["tl_after"] = len(rec.timeline_obj.events)
        self.cur_done = rec
        return rec

    def coro(self, k):
        """Async entry: returns (rec, coroutine)."""
        rec = self._begin(k)
        ckw = self._common_call_kw(rec)
        h = self
        two = self.sc.get("op_two_susp")

        async def aop():
            await h.susp("op")
            if two:
                # the attempt "is running" across two suspension points
                i = h.n.get("op", 0)
                rec.trace.append(("op-pre", i + 1))
                await h.susp("op2")
            return h.op_body()

        try:
            if self.meth == "execute":
                tl = self.sc.get("timeline")
                if tl in ("obj", "objshared"):
                    rec.timeline_obj = self._timeline_for(tl)
                    rec.objs["tl_before"] = len(rec.timeline_obj.events)
                    ckw["capture_timeline"] = rec.timeline_obj
                elif tl:
                    ckw["capture_timeline"] = True
                c = self.obj.execute(aop, **ckw)
            elif self.meth == "ctx" and self.sc.get("ctx_block_shared"):

                async def viashared():
                    if getattr(h, "_shared_acall", None) is None:
                        ckw2 = dict(ckw)
                        if "on_metric" in ckw2:
                            ckw2["on_metric"] = h.shape(h.on_metric)
                        if "on_log" in ckw2:
                            ckw2["on_log"] = h.shape(h.on_log)
                        h._shared_acm = h.obj.context(**ckw2)
                        h._shared_acall = await h._shared_acm.__aenter__()
                    return await h._shared_acall(aop)

                c = viashared()
            elif self.meth == "ctx":

                async def viactx():
                    async with h.obj.context(**ckw) as call:
                        if h.sc.get("ctx_decoy"):
                            async with h.obj.context(on_log=lambda *a: None):
                                return await call(aop)
                        return await call(aop)

                c = viactx()
            elif self.kind == "deco":
                if self.decorated is None:
                    self.decorated = self._deco_build(ckw, aop)
                c = self.decorated()
            else:
                c = self.obj.call(aop, **ckw)
        except BaseException as x:  # noqa: BLE001
            # an entry point that does part of its work when invoked rather than when awaited, and fails there: the caller of
            # `await entry(...)` sees the same exception at the same place

            async def failed(x=x):
                raise x

            c = failed()
        return rec, c

    def call_async(self, k):
        rec, c = self.coro(k)
        f = self.fault if (self.fault and self.fault.get("kind") == "throw") else None
        if f is not None and f.get("call", 0) != k:
            f = None
        if self.world.manual:
            rec.final = drive(c, rec, f)
        else:
            rec.final = drive_loop(c)
        rec.counts = dict(self.n)
        if rec.timeline_obj is not None:
            rec.objs["tl_after"] = len(rec.timeline_obj.events)
        return rec


class _Unbuilt:
    """Stand-in for a harness whose policy objects could not be constructed."""

    breaker = None
    budget = None
    obj = None
    _pre = ()
    fault = None


def _elsewhere(fault, step):
    """Perform one step of a coroutine - here: the one that ends it.  With fault["thread"] == "other" the step runs on a different OS
    thread than the one that started the coroutine (an event loop in a worker thread shut down from the main thread; a coroutine
    closed by whoever drops the last reference)."""
    if fault.get("thread") != "other":
        return step()
    import threading

    box = []

    def run():
        try:
            box.append(("ok", step()))
        except BaseException as x:  # noqa: BLE001
            box.append(("raise", x))

    t = threading.Thread(target=run)
    t.start()
    t.join()
    if box[0][0] == "raise":
        raise box[0][1]
    return box[0][1]


def drive(coro, rec=None, fault=None):
    """Manual coroutine driver.  Suspension point k = the k-th time the coroutine yields."""
    sp = 0
    try:
        if fault is not None and fault["at"] == -1:
            # the coroutine object is created (batch being assembled, wait_for with no time left, task cancelled in the tick
            # it was made) and dropped without ever receiving its first send: none of its body, no finally, runs
            if rec is not None:
                rec.fault_fired += 1
                rec.trace.append(("thrown", "never-started", ""))
            coro.close()
            return ("closed", None)
        coro.send(None)
        while True:
            if fault is not None and fault["at"] == sp:
                if rec is not None:
                    rec.fault_fired += 1
                if fault["exc"] == "close":
                    if rec is not None:
                        rec.trace.append(("thrown", "close", ""))
                    _elsewhere(fault, coro.close)
                    return ("closed", None)
                x = make_exc(fault["exc"])
                if rec is not None:
                    rec.objs["thrown"] = x
                    rec.trace.append(("thrown", fault["exc"], ""))
                sp += 1
                _elsewhere(fault, lambda: coro.throw(x))
            else:
                sp += 1
                coro.send(None)
    except StopIteration as s:
        return ("return", s.value)
    except BaseException as x:  # noqa: BLE001
        return ("raise", x)


def drive_loop(coro):
    loop = asyncio.new_event_loop()
    try:
        try:
            r = loop.run_until_complete(coro)
            return ("return", r)
        except BaseException as x:  # noqa: BLE001
            return ("raise", x)
    finally:
        loop.close()


def run(sc, entry, *, wall_seed=0, wall_mode="jump", manual=True):
    """Run all calls of a scenario through one entry point.  Returns (recs, harness, world)."""
    world = env.World(wall_seed=wall_seed, wall_mode=wall_mode)
    # attempt_timeout_s needs asyncio.wait_for, i.e. a running event loop: such scenarios use the real loop
    world.manual = manual and not sc["cfg"].get("attempt_timeout")
    import contextlib
    import warnings

    with env.active(world), (warnings.catch_warnings() if sc.get("warnings_as_errors") else contextlib.nullcontext()):
        if sc.get("warnings_as_errors"):
            # the process escalates warnings to errors (python -W error, pytest filterwarnings = error)
            warnings.simplefilter("error")
        try:
            h = Harness(sc, entry, world)
        except Exception as x:  # noqa: BLE001
            # the library refused (or choked on) a configuration the scenario considers legal: every call of the scenario "ends" with
            # that error before anything ran - the oracles judge it like any other delivery
            h = _Unbuilt()
            recs = []
            for k in range(len(sc["calls"])):
                rec = Rec(sc["calls"][k], entry, k)
                rec.final = ("raise", x)
                rec.counts = {}
                rec.hits = dict(world.hits)
                rec.trace.append(("construction-failed", type(x).__name__, str(x)[:80]))
                recs.append(rec)
            world.trace = None
            return recs, h, world
        recs = []
        del COPIED_CALLABLE_CALLS[:]
        for k in range(len(sc["calls"])):
            if h.is_async:
                recs.append(h.call_async(k))
            else:
                recs.append(h.call_sync(k))
            recs[-1].hits = dict(world.hits)
            if COPIED_CALLABLE_CALLS:
                recs[-1].trace.append(("callable-copied", tuple(sorted(set(COPIED_CALLABLE_CALLS)))))
                del COPIED_CALLABLE_CALLS[:]
        h.cur = None
        world.trace = None
    return recs, h, world
