"""Controlled thread scheduler for C17.

Worker threads run real component methods.  A sys.monitoring LINE callback, restricted to code
objects whose file lies inside the redress package, hands control to a token-passing scheduler
before every source line of the component; only the token holder runs.  The component's lock
is a scheduler-aware lock (obtained through a temporarily interposed threading.Lock factory at
construction, with instance-attribute replacement as a fallback): a thread that finds it held
is marked blocked and the token moves on; it is non-reentrant like the real one; "every
unfinished thread blocked" is a deadlock.

Schedules are explored by depth-first enumeration with a pre-emption bound (re-execution with a
choice prefix) and by seeded random walks; each schedule is identified by its choice sequence.
"""

from __future__ import annotations

import os
import sys
import threading

from . import env

env.import_redress()

import redress  # noqa: E402

PKG = os.path.dirname(os.path.realpath(redress.__file__)) + os.sep
mon = sys.monitoring
TOOL = 4
_REAL_LOCK = threading.Lock
_REAL_RLOCK = threading.RLock


class Deadlock(BaseException):
    """BaseException: must unwind through library code that contains ordinary exceptions."""


class Sched:
    def __init__(self, n, prefix=(), rng=None, preempt_p=0.3):
        self.n = n
        self.prefix = list(prefix)
        self.rng = rng
        self.preempt_p = preempt_p
        self.sems = [threading.Semaphore(0) for _ in range(n)]
        self.state = ["ready"] * n
        self.cur = None
        self.tids = {}
        self.trace = []  # (runnable tuple, chosen, is_preemption, previous holder)
        self.done = threading.Semaphore(0)
        self.deadlock = False
        self.contention = 0
        self.line_events = 0
        self.finished = False

    def me(self):
        return self.tids.get(threading.get_ident())

    def choose(self):
        runnable = [i for i, s in enumerate(self.state) if s == "ready"]
        if not runnable:
            return None
        k = len(self.trace)
        c = None
        if k < len(self.prefix) and self.prefix[k] in runnable:
            c = self.prefix[k]
        elif self.rng is not None:
            if self.cur in runnable and self.rng.random() >= self.preempt_p:
                c = self.cur
            else:
                c = self.rng.choice(runnable)
        else:
            c = self.cur if self.cur in runnable else runnable[0]
        pre = (self.cur in runnable) and c != self.cur
        self.trace.append((tuple(runnable), c, pre, self.cur))
        return c

    def switch(self):
        me = self.me()
        nxt = self.choose()
        if nxt is None:
            if all(s == "done" for s in self.state):
                self.finished = True
                self.done.release()
                return
            self.deadlock = True
            self.done.release()
            raise Deadlock()
        if nxt == me:
            return
        self.cur = nxt
        self.sems[nxt].release()
        if self.state[me] != "done":
            self.sems[me].acquire()
            if self.deadlock:
                raise Deadlock()

    def yield_point(self):
        me = self.me()
        if me is None or self.cur != me:
            return
        runnable = 0
        for s in self.state:
            if s == "ready":
                runnable += 1
        if runnable > 1:
            self.switch()


class SchedLock:
    """Scheduler-aware, non-reentrant lock with the threading.Lock interface the components use."""

    reentrant = False

    def __init__(self, reg):
        self.reg = reg
        self.owner = None
        self.depth = 0
        self.waiters = []
        reg.locks.append(self)

    def acquire(self, blocking=True, timeout=-1):
        s = self.reg.sched
        me = s.me() if s is not None else None
        if me is None:
            # construction / sequential use outside a schedule
            if self.owner is not None and not (self.reentrant and self.owner == "main"):
                raise RuntimeError("lock acquired twice outside a schedule (self-deadlock)")
            self.owner = "main"
            self.depth += 1
            return True
        s.yield_point()
        if not blocking and self.owner is not None and not (self.reentrant and self.owner == me):
            return False  # non-blocking attempt on a held lock, like threading.Lock.acquire(blocking=False)
        while self.owner is not None and not (self.reentrant and self.owner == me):
            s.contention += 1
            s.state[me] = "blocked"
            self.waiters.append(me)
            s.switch()
        self.owner = me
        self.depth += 1
        return True

    def release(self):
        self.depth -= 1
        if self.depth > 0 and self.reentrant:
            return
        self.owner = None
        self.depth = 0
        s = self.reg.sched
        if s is not None:
            for w in self.waiters:
                s.state[w] = "ready"
            self.waiters.clear()
            if s.me() is not None and self.reg.yield_on_release:
                s.yield_point()

    def locked(self):
        return self.owner is not None

    __enter__ = acquire

    def __exit__(self, *a):
        self.release()


class SchedRLock(SchedLock):
    reentrant = True


class Registry:
    """Locks created while a component is constructed; `sched` is set per schedule."""

    def __init__(self):
        self.locks = []
        self.sched = None
        # callback-level runs record each shared operation right after it returns: no pre-emption between the
        # release of the component's lock and that record, or the log order would not be the lock order
        self.yield_on_release = True


class lock_factory:
    """Context manager: threading.Lock/RLock called FROM THE REDRESS PACKAGE create scheduler-aware locks registered
    in `reg`; every other caller (the threading module itself, the harness) gets the real thing.  It stays active for
    a whole schedule, so a lock the component creates in the middle of a run is scheduler-aware too."""

    def __init__(self, reg):
        self.reg = reg

    def __enter__(self):
        reg = self.reg

        def mk(cls, real):
            def factory(*a, **kw):
                if sys._getframe(1).f_code.co_filename.startswith(PKG):
                    return cls(reg)
                return real(*a, **kw)

            return factory

        threading.Lock = mk(SchedLock, _REAL_LOCK)
        threading.RLock = mk(SchedRLock, _REAL_RLOCK)
        return reg

    def __exit__(self, *a):
        threading.Lock = _REAL_LOCK
        threading.RLock = _REAL_RLOCK


_ACTIVE = [None]
_INSTALLED = [False]
CURRENT = [None]  # the schedule in progress, for explicit yield points in harness callbacks
_REG = [None]  # registry of the schedule being built (for new_lock)


class sequential:
    """Context manager for running a component single-threaded with scheduler-aware locks: a thread that asks for a lock it
    already holds gets RuntimeError("... self-deadlock") instead of hanging."""

    def __enter__(self):
        self.reg = Registry()
        self.fac = lock_factory(self.reg)
        self.fac.__enter__()
        self.prev = _REG[0]
        _REG[0] = self.reg
        return self.reg

    def __exit__(self, *a):
        _REG[0] = self.prev
        self.fac.__exit__()


def new_lock():
    """A scheduler-aware lock for a component whose lock was created out of the factory's reach (e.g. a dataclass
    field whose default_factory captured the real threading.Lock at class definition).  None outside a schedule."""
    return SchedLock(_REG[0]) if _REG[0] is not None else None


def point():
    """Explicit yield point (harness callbacks of policy-level thread runs)."""
    s = CURRENT[0]
    if s is not None:
        s.yield_point()


def me():
    s = CURRENT[0]
    return s.me() if s is not None else None


COMPONENT_FILES = ("budget.py", "circuit.py", "strategies.py")
LINE_FILES = [None]  # None: every file of the package; else the basenames in which a line is a pre-emption point


def _on_line(code, line):
    fn = code.co_filename
    if not fn.startswith(PKG):
        return mon.DISABLE
    s = _ACTIVE[0]
    if s is not None:
        lf = LINE_FILES[0]
        if lf is not None and os.path.basename(fn) not in lf:
            return None
        s.line_events += 1
        s.yield_point()
    return None


def install_monitor():
    if _INSTALLED[0]:
        return
    mon.use_tool_id(TOOL, "rv-sched")
    mon.register_callback(TOOL, mon.events.LINE, _on_line)
    mon.set_events(TOOL, mon.events.LINE)
    _INSTALLED[0] = True


def uninstall_monitor():
    if not _INSTALLED[0]:
        return
    mon.set_events(TOOL, 0)
    mon.register_callback(TOOL, mon.events.LINE, None)
    mon.free_tool_id(TOOL)
    _INSTALLED[0] = False


def build(make, reg=None):
    """Construct the component with scheduler-aware locks.  Returns (obj, registry, how)."""
    own = reg is None
    if own:
        reg = Registry()
        with lock_factory(reg):
            obj = make()
    else:
        obj = make()  # the caller keeps the factory active
    how = "factory"
    if not reg.locks:
        # fallback: replace lock-like instance attributes
        for name, val in list(getattr(obj, "__dict__", {}).items()):
            if type(val).__name__ in ("lock", "RLock") or (hasattr(val, "acquire") and hasattr(val, "release") and "lock" in name.lower()):
                setattr(obj, name, SchedRLock(reg) if "RLock" in type(val).__name__ else SchedLock(reg))
                how = "attribute"
    if not reg.locks:
        how = "no-lock-found"
    return obj, reg, how


def run_schedule(make, programs, prefix=(), rng=None, watchdog_s=20.0, line_level=True, preempt_p=0.3, yield_on_release=None):
    """Run one schedule of `programs` (list of lists of callables obj -> result) on a fresh component.

    line_level=True: pre-emption before every source line of the redress package (component races).
    line_level=False: pre-emption only at lock operations of the shared components and at explicit
    `point()` calls in harness callbacks (whole policy calls racing on shared components).
    line_level="components": as False, plus every source line inside budget.py / circuit.py / strategies.py
    (a thread can be parked INSIDE a component's critical section while another one arrives).
    """
    if line_level:
        install_monitor()
    reg = Registry()
    fac = lock_factory(reg)
    fac.__enter__()
    _REG[0] = reg
    try:
        return _run_schedule(make, programs, prefix, rng, watchdog_s, line_level, preempt_p, reg, yield_on_release)
    finally:
        _REG[0] = None
        fac.__exit__()


def _run_schedule(make, programs, prefix, rng, watchdog_s, line_level, preempt_p, reg, yield_on_release):
    obj, reg, how = build(make, reg)
    reg.yield_on_release = (line_level is True) if yield_on_release is None else yield_on_release
    LINE_FILES[0] = COMPONENT_FILES if line_level == "components" else None
    s = Sched(len(programs), prefix, rng, preempt_p)
    reg.sched = s
    results = [[] for _ in programs]
    errors = []
    ready = threading.Semaphore(0)

    def worker(i):
        s.tids[threading.get_ident()] = i
        ready.release()
        s.sems[i].acquire()
        try:
            if s.deadlock:
                return
            for op in programs[i]:
                results[i].append(op(obj))
                s.yield_point()
        except Deadlock:
            return
        except BaseException as x:  # noqa: BLE001
            errors.append((i, repr(x)))
        finally:
            s.state[i] = "done"
        try:
            s.switch()
        except Deadlock:
            pass

    ths = [threading.Thread(target=worker, args=(i,), daemon=True) for i in range(len(programs))]
    for t in ths:
        t.start()
    for _ in ths:
        ready.acquire()
    _ACTIVE[0] = s if line_level else None
    CURRENT[0] = s
    first = s.choose()
    s.cur = first
    s.sems[first].release()
    ok = s.done.acquire(timeout=watchdog_s)
    _ACTIVE[0] = None
    CURRENT[0] = None
    if s.deadlock or not ok:
        s.deadlock = s.deadlock or False
        for sem in s.sems:
            sem.release()
    for t in ths:
        t.join(timeout=2.0)
    reg.sched = None
    return {"results": results, "obj": obj, "sched": s, "completed": ok, "errors": errors, "lock_how": how, "locks": len(reg.locks)}


def next_prefix(trace, bound):
    """DFS: the last choice point with an untried alternative that stays within the pre-emption bound.
    At every choice point the alternatives are tried in the order [default, the others by index], the default being what an
    unconstrained run takes (continue the current thread if it can run, else the lowest runnable one)."""
    for k in range(len(trace) - 1, -1, -1):
        opts, c, pre, cur = trace[k]
        order = ([cur] if cur in opts else []) + [o for o in opts if o != cur]
        pre_before = sum(1 for x in trace[:k] if x[2])
        for o in order[order.index(c) + 1:]:
            is_pre = (cur in opts) and o != cur
            if pre_before + (1 if is_pre else 0) <= bound:
                return [x[1] for x in trace[:k]] + [o]
    return None


class Deepening:
    """Iterative deepening over the pre-emption bound: every schedule with at most 1 pre-emption first, then at most 2, ... up to
    `bound`, at most `limit` schedules in all (depth-first order visits late pre-emptions first; without deepening a small limit is
    spent on two-pre-emption schedules near the end of the run before a single early pre-emption is ever tried)."""

    def __init__(self, bound, limit):
        self.bound = bound
        self.limit = limit
        self.cur = min(1, bound)
        self.n = 0
        self.exhausted = False

    def next(self, trace):
        """The prefix to run after the schedule whose trace is `trace`; None when done."""
        self.n += 1
        if self.n >= self.limit:
            return None
        nxt = next_prefix(trace, self.cur)
        if nxt is not None:
            return nxt
        if self.cur >= self.bound:
            self.exhausted = True
            return None
        self.cur += 1
        return []  # start again from the default schedule with one more pre-emption allowed
