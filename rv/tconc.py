"""Whole policy calls overlapping on shared components (one Budget, one CircuitBreaker, one strategy object,
optionally one policy object): sync calls racing in threads, or async calls interleaved on one loop.

Per-call state of the engine is private to a call; what can differ between schedules is the order of accesses to the
shared objects.  Pre-emption is therefore injected where those accesses happen and where the engine calls out:

  level "callbacks"   every lock operation of the shared Budget / CircuitBreaker / AdaptiveStrategy (scheduler-aware
                      lock, rv.sched) and every harness callback (operation, classifiers, strategy, sleeper, hooks);
  level "components"  the same plus every source line inside budget.py / circuit.py / strategies.py: a thread can be
                      parked INSIDE a component's critical section while another one arrives;
  level "lines"       every source line of the package (first-use races on a fresh policy object); explored with
                      pre-emption bound 1, i.e. "park call A at line k, run call B to completion, resume A" for every k;
  mode "async"        the calls are coroutines of AsyncRetry / AsyncPolicy driven by hand; a switch is possible at every
                      suspension point (operation, sleeper) - coroutines cannot be pre-empted elsewhere.

Schedules are enumerated depth-first under a pre-emption bound, then sampled by seeded random walks; each is identified
by its choice sequence.  Nothing here predicts the outcome of a race: the judges are per-call statements that must hold
in every schedule (each call's own event stream, its own tokens, its own breaker record, its own objects, its own deadline).
"""

from __future__ import annotations

from . import env, sched
from .models import BudgetModel

env.import_redress()

from redress import (  # noqa: E402
    AsyncPolicy,
    AsyncRetry,
    Budget,
    CircuitBreaker,
    ErrorClass,
    Policy,
    Retry,
    RetryExhaustedError,
)
from redress.strategies import adaptive  # noqa: E402

EC = ErrorClass
T0 = 1024.0
TERMINALS = {"success", "permanent_fail", "deadline_exceeded", "max_attempts_exceeded", "max_unknown_attempts_exceeded", "no_strategy_configured", "budget_exhausted", "scheduled", "aborted"}
BREAKER_EVENTS = {"circuit_opened", "circuit_half_open", "circuit_closed", "circuit_rejected"}
CLASS_DELAY = {"RATE_LIMIT": 7.0, "SERVER_ERROR": 5.0}  # per-class strategies of the "per-class" table; anything else: the default
DEFAULT_DELAY = 3.0


class TExc(Exception):
    def __init__(self, tid, idx, klass):
        super().__init__(f"T{tid}:{klass}@{idx}")
        self.tid, self.idx, self.rv_klass = tid, idx, klass


class TRes:
    def __init__(self, tid, idx, klass):
        self.tid, self.idx, self.rv_klass = tid, idx, klass

    def __repr__(self):
        return f"Res(T{self.tid}:{self.rv_klass}@{self.idx})"


class TVal:
    def __init__(self, tid, idx):
        self.tid, self.idx = tid, idx

    def __repr__(self):
        return f"Val(T{self.tid}@{self.idx})"


_CUR = [None]  # async mode: index of the call whose coroutine is being resumed


def who():
    t = sched.me()
    if t is not None:
        return t
    return -1 if _CUR[0] is None else _CUR[0]


class Bundle:
    """The shared objects of one schedule plus the global log (call index, kind, ...)."""

    def __init__(self, spec, world):
        self.spec = spec
        self.world = world
        self.log = []
        self.is_async = spec.get("mode") == "async"
        me = self

        class SBudget(Budget):
            def consume(s, cost=1, *a, **kw):
                r = super().consume(cost, *a, **kw)
                me.log.append((who(), "consume", cost, r, world.t))
                return r

            def remaining(s, *a, **kw):
                r = super().remaining(*a, **kw)
                me.log.append((who(), "remaining", r, world.t))
                return r

        class SBreaker(CircuitBreaker):
            def allow(s, *a, **kw):
                d = super().allow(*a, **kw)
                me.log.append((who(), "br.allow", d.allowed, d.state.value, world.t))
                return d

            def record_success(s, *a, **kw):
                r = super().record_success(*a, **kw)
                me.log.append((who(), "br.success", r, world.t))
                return r

            def record_failure(s, klass, *a, **kw):
                r = super().record_failure(klass, *a, **kw)
                me.log.append((who(), "br.failure", getattr(klass, "name", repr(klass)), r, world.t))
                return r

            def record_cancel(s, *a, **kw):
                r = super().record_cancel(*a, **kw)
                me.log.append((who(), "br.cancel", world.t))
                return r

        world.t = T0
        b = spec.get("budget")
        self.budget = None
        if b:
            self.budget = SBudget(max_retries=b["max"], window_s=b["window"])
            for _ in range(b.get("prefill", 0)):
                Budget.consume(self.budget, 1)
        br = spec.get("breaker")
        self.breaker = None
        if br:
            self.breaker = SBreaker(failure_threshold=br["threshold"], window_s=br["window"], recovery_timeout_s=br["recovery"])
            if br.get("init") == "expired":
                for _ in range(br["threshold"]):
                    CircuitBreaker.record_failure(self.breaker, EC.TRANSIENT)
                world.t += br["recovery"] + 1.0
        n = len(spec["threads"])
        table = spec.get("strategy", "fixed")
        skw = dict(strategy=self.strategy)
        self.adaptive = None
        if table == "adaptive":
            # ONE adaptive() object handed to every call: its outcome window is shared state behind its own lock
            self.adaptive = adaptive(self.strategy, window_s=60.0, target_success=0.5, min_multiplier=1.0, max_multiplier=4.0)
            lk = sched.new_lock()
            if lk is not None and hasattr(self.adaptive, "_lock"):
                self.adaptive._lock = lk  # its own lock is a dataclass default_factory bound to the real threading.Lock
            skw = dict(strategy=self.adaptive)
        elif table == "per-class":
            skw = dict(strategy=self.mk_class_strategy(None), strategies={EC[k]: self.mk_class_strategy(k) for k in CLASS_DELAY})
        self.policies = []
        shared = None
        R, P = (AsyncRetry, AsyncPolicy) if self.is_async else (Retry, Policy)
        for i in range(n):
            if spec.get("shared_policy") and shared is not None:
                self.policies.append(shared)
                continue
            r = R(
                classifier=self.classifier,
                result_classifier=self.result_classifier,
                budget=self.budget,
                deadline_s=spec.get("deadline_s", 100000.0),
                max_attempts=spec["max_attempts"],
                max_unknown_attempts=None,
                per_class_max_attempts={EC[k]: v for k, v in (spec.get("per_class") or {}).items()},
                **skw,
            )
            pol = P(retry=r, circuit_breaker=self.breaker) if self.breaker is not None or spec.get("wrap") else r
            shared = pol
            self.policies.append(pol)
        self.finals = [None] * n
        self.nops = [0] * n
        self.starts = [None] * n
        self.after = None  # verdict of the sequential continuation (breaker not wedged)

    # shared (policy-level) callbacks: the acting call is the current one
    def classifier(self, e):
        self.log.append((who(), "classify", getattr(e, "tid", None), getattr(e, "idx", None), getattr(e, "rv_klass", "UNKNOWN")))
        sched.point()
        return EC[getattr(e, "rv_klass", "UNKNOWN")]

    def result_classifier(self, r):
        if isinstance(r, TRes):
            self.log.append((who(), "rclassify", r.tid, r.idx, r.rv_klass))
            sched.point()
            return EC[r.rv_klass]
        return None

    def strategy(self, ctx):
        self.log.append((who(), "strategy", ctx.attempt, ctx.klass.name))
        sched.point()
        return self.spec.get("delay", 0.25)

    def mk_class_strategy(self, klass):
        def st(ctx):
            self.log.append((who(), "strategy", ctx.attempt, ctx.klass.name, klass or "default"))
            sched.point()
            return CLASS_DELAY.get(klass, DEFAULT_DELAY)

        return st

    def _script(self, i, th, k):
        outs = th["outcomes"]
        o = outs[k % len(outs)]
        if o[0] == "ok":
            return TVal(i, k)
        if o[0] == "res":
            return TRes(i, k, o[1])
        if o[0] == "abort":
            from redress import AbortRetryError

            raise AbortRetryError()  # cooperative abort raised by the operation: a cancel-type ending
        raise TExc(i, k, o[1])

    def _dur(self, th, k):
        d = th.get("dur", 0.0)
        return d[k % len(d)] if isinstance(d, list) else d

    def _hooks(self, i, th, suspend=None):
        log, world = self.log, self.world

        def on_metric(event, attempt, sleep_s, tags):
            log.append((i, "event", event, attempt, sleep_s, world.t, dict(tags)))
            sched.point()

        def astart(ctx):
            log.append((i, "astart", ctx.attempt))
            sched.point()

        def aend(ctx):
            log.append((i, "aend", ctx.attempt, ctx.decision.value if ctx.decision is not None else None))
            sched.point()

        kw = dict(on_metric=on_metric)
        if th.get("hooks", True):
            kw["on_attempt_start"] = astart
            kw["on_attempt_end"] = aend
        return kw

    def run_call(self, i):
        """Sync: the whole call of thread i."""
        th = self.spec["threads"][i]
        pol = self.policies[i]
        log, world = self.log, self.world
        self.starts[i] = world.t

        def op():
            k = self.nops[i]
            self.nops[i] = k + 1
            log.append((i, "op", k + 1, world.t))
            sched.point()
            world.t += self._dur(th, k)
            nest = th.get("nested")
            if nest and nest["at"] == k:
                # the operation itself uses the same policy object for a sub-step (a call nested in a call)
                log.append((i, "nested-begin", world.t))
                try:
                    pol.call(lambda: (_ for _ in ()).throw(TExc(-2, 0, "TRANSIENT")) if nest.get("fails") else "sub-ok", sleeper=lambda s: None)
                except BaseException as x:  # noqa: BLE001
                    if isinstance(x, sched.Deadlock):
                        raise
                log.append((i, "nested-end", world.t))
            return self._script(i, th, k)

        def sleeper(s):
            log.append((i, "sleep", s, world.t))
            sched.point()
            world.t += s

        kw = dict(sleeper=sleeper, **self._hooks(i, th))
        try:
            if th.get("entry", "call") == "execute":
                self.finals[i] = ("outcome", pol.execute(op, **kw))
            else:
                self.finals[i] = ("return", pol.call(op, **kw))
        except BaseException as x:  # noqa: BLE001 - the harness observes everything
            if isinstance(x, sched.Deadlock):
                raise
            self.finals[i] = ("raise", x)
        return i

    def coro(self, i):
        """Async: the coroutine of call i (started lazily by the driver)."""
        th = self.spec["threads"][i]
        pol = self.policies[i]
        log, world = self.log, self.world

        async def aop():
            k = self.nops[i]
            self.nops[i] = k + 1
            log.append((i, "op", k + 1, world.t))
            await env.Suspend("op")
            _CUR[0] = i
            world.t += self._dur(th, k)
            return self._script(i, th, k)

        async def asl(s):
            log.append((i, "sleep", s, world.t))
            await env.Suspend("sleep")
            _CUR[0] = i
            world.t += s

        kw = dict(sleeper=asl, **self._hooks(i, th))

        async def run():
            self.starts[i] = world.t
            try:
                if th.get("entry", "call") == "execute":
                    self.finals[i] = ("outcome", await pol.execute(aop, **kw))
                else:
                    self.finals[i] = ("return", await pol.call(aop, **kw))
            except BaseException as x:  # noqa: BLE001
                self.finals[i] = ("raise", x)

        return run()

    def continuation(self):
        """Sequential, after every call has ended: a breaker nobody is using any more must recover."""
        br = self.spec.get("breaker")
        if not br or self.breaker is None:
            return
        w = self.world
        w.t += br["recovery"] + 100.0
        d = CircuitBreaker.allow(self.breaker)
        if not d.allowed:
            self.after = f"every call has ended; recovery_timeout_s + 100 s later allow() still rejects (state {d.state.value}): breaker wedged"
            return
        if d.state.value == "half_open":
            CircuitBreaker.record_success(self.breaker)
        if CircuitBreaker.allow(self.breaker).state.value != "closed":
            self.after = "after the continuation probe succeeded the breaker is not closed"
            return
        CircuitBreaker.record_success(self.breaker)
        for _ in range(br["threshold"]):
            CircuitBreaker.record_failure(self.breaker, EC.TRANSIENT)
        if CircuitBreaker.allow(self.breaker).allowed:
            return  # did not open: C06's business
        w.t += br["recovery"] + 1.0
        d2 = CircuitBreaker.allow(self.breaker)
        if not d2.allowed:
            self.after = f"one more outage driven directly after every call had ended: allow() after the recovery timeout rejects (state {d2.state.value}) although nothing is in flight"


class _Trace:
    """sched-compatible record of an async schedule (so next_prefix / hashing work alike)."""

    def __init__(self):
        self.trace = []
        self.deadlock = False
        self.contention = 0
        self.line_events = 0


def run_async(spec, prefix=(), rng=None):
    """k coroutines on one policy / budget / breaker; at every step the driver picks which suspended one to resume."""
    world = env.World()
    st = _Trace()
    errors = []
    with env.active(world):
        b = Bundle(spec, world)
        n = len(spec["threads"])
        live = {}
        started = 0
        cur = None
        while True:
            opts = sorted(live) + ([started] if started < n else [])  # resume a suspended call, or start the next one
            if not opts:
                break
            k = len(st.trace)
            if k < len(prefix) and prefix[k] in opts:
                c = prefix[k]
            elif rng is not None:
                c = cur if (cur in opts and rng.random() >= 0.3) else rng.choice(opts)
            else:
                c = cur if cur in opts else opts[0]
            pre = (cur in opts) and c != cur
            st.trace.append((tuple(opts), c, pre, cur))
            cur = c
            if c == started and c not in live:
                live[c] = b.coro(c)
                started += 1
            _CUR[0] = c
            try:
                live[c].send(None)
            except StopIteration:
                del live[c]
            except BaseException as x:  # noqa: BLE001
                errors.append((c, repr(x)))
                del live[c]
        _CUR[0] = None
        b.continuation()
    return {"results": None, "obj": b, "bundle": b, "sched": st, "completed": True, "errors": errors, "lock_how": "n/a", "locks": 0}


def run_schedule(spec, prefix=(), rng=None):
    if spec.get("mode") == "async":
        return run_async(spec, prefix, rng)
    world = env.World()
    level = spec.get("level", "callbacks")
    with env.active(world):
        holder = {}

        def make():
            holder["b"] = Bundle(spec, world)
            return holder["b"]

        programs = [[(lambda i: (lambda b: b.run_call(i)))(i)] for i in range(len(spec["threads"]))]
        r = sched.run_schedule(make, programs, prefix=prefix, rng=rng, line_level={"callbacks": False, "components": "components", "lines": True}[level],
                               preempt_p=0.15 if level == "callbacks" else 0.04, yield_on_release=False)
        if r["completed"] and not r["sched"].deadlock:
            holder["b"].continuation()
    if level != "callbacks":
        sched.LINE_FILES[0] = None
    r["bundle"] = holder["b"]
    return r


# ---------------------------------------------------------------------------------------- judges
def per_thread(bundle):
    by = {}
    for ev in bundle.log:
        by.setdefault(ev[0], []).append(ev)
    return by


def judge_events(bundle):
    """C14 per call: the call's own event stream is retry* followed by exactly one terminal event; breaker events carry the
    state decided for THIS call."""
    by = per_thread(bundle)
    for i in range(len(bundle.spec["threads"])):
        evs = [e for e in by.get(i, []) if e[1] == "event" and e[2] not in BREAKER_EVENTS]
        names = [e[2] for e in evs]
        admitted = [e for e in by.get(i, []) if e[1] == "br.allow"]
        for e in by.get(i, []):
            if e[1] == "event" and e[2] in ("circuit_rejected", "circuit_half_open") and admitted:
                want = admitted[0][3]
                got = e[6].get("state")
                if got is not None and got != want:
                    return ("thread-race:breaker-event-state-is-not-the-decision's", f"call {i}: allow() decided state '{want}' for this call but its {e[2]} event says state='{got}'")
        if admitted and not admitted[0][2]:
            continue  # rejected by the breaker: C07's business
        if bundle.finals[i] is not None and bundle.finals[i][0] == "raise" and not isinstance(bundle.finals[i][1], (TExc, RetryExhaustedError)):
            continue  # ended abnormally (judge "escape" reports it)
        terms = [n for n in names if n in TERMINALS]
        if len(terms) != 1 or names[-1] not in TERMINALS or any(n != "retry" and n not in TERMINALS for n in names):
            return ("thread-race:event-grammar", f"call {i}: event stream {names} is not retry* followed by exactly one terminal event (final {describe_final(bundle.finals[i])})")
        k = 0
        for e in evs:
            if e[2] == "retry":
                k += 1
                if e[3] != k:
                    return ("thread-race:retry-numbering", f"call {i}: {k}-th retry event carries attempt={e[3]}")
    return None


def judge_tokens(bundle):
    """C10/C03 per call and attempt: one granted token per retry event; budget_exhausted reported exactly when the window really
    was full for this call; every grant and refusal agrees with the sliding-window model (the clock only moves inside operations
    and sleepers here, never inside a budget operation)."""
    spec = bundle.spec
    if not spec.get("budget"):
        return None
    model = BudgetModel(spec["budget"]["max"], spec["budget"]["window"])
    for _ in range(spec["budget"].get("prefill", 0)):
        model.commit(T0, 1, True)
    segs = {}
    allsegs = []
    for e in bundle.log:
        i = e[0]
        if e[1] == "op":
            if i in segs:
                segs[i]["next_op"] = True
            segs[i] = {"tid": i, "grants": 0, "refused": 0, "retry": 0, "exhausted": 0, "attempt": e[2], "next_op": False}
            allsegs.append(segs[i])
        elif e[1] == "consume":
            cost, ok, t = e[2], e[3], e[4]
            want = model.consume(t, cost)
            if ok not in want:
                lo, hi = model.live(t)
                return ("thread-race:over-grant" if ok else "thread-race:refused-although-capacity", f"call {i}: consume({cost}) -> {ok} at t={t - T0}; {lo}..{hi} of {model.max} tokens live")
            model.commit(t, cost, ok)
            if i in segs:
                if ok:
                    segs[i]["grants"] += cost
                else:
                    segs[i]["refused"] += 1
        elif e[1] == "event" and i in segs:
            if e[2] == "retry":
                segs[i]["retry"] += 1
            elif e[2] == "budget_exhausted":
                segs[i]["exhausted"] += 1
                if model.consume(e[5], 1) == {True}:
                    lo, hi = model.live(e[5])
                    return ("thread-race:exhausted-although-capacity", f"call {i} attempt {segs[i]['attempt']}: budget_exhausted reported at t={e[5] - T0} while only {hi} of {model.max} tokens were live")
    for s_ in allsegs:
        i = s_["tid"]
        if s_["next_op"] and s_["grants"] != 1:
            return ("thread-race:retry-without-token", f"call {i}: attempt {s_['attempt']} was followed by another attempt with {s_['grants']} token(s) granted to this call in between")
        if s_["grants"] != s_["retry"]:
            return ("thread-race:token-retry-mismatch", f"call {i} attempt {s_['attempt']}: {s_['grants']} token(s) granted but {s_['retry']} retry event(s)")
        if s_["refused"] and not s_["exhausted"]:
            return ("thread-race:refusal-not-reported", f"call {i} attempt {s_['attempt']}: consume() refused but no budget_exhausted event (final {describe_final(bundle.finals[i])})")
    return None


def last_failure_class(bundle, i):
    k = None
    for e in bundle.log:
        if e[0] == i and e[1] in ("classify", "rclassify") and e[2] == i:
            k = e[4]
    return k


def judge_breaker(bundle):
    """C09 per call: an admitted call tells the breaker exactly once, success or the class of ITS OWN final failure; a rejected
    call tells it nothing."""
    if bundle.breaker is None:
        return None
    by = per_thread(bundle)
    for i in range(len(bundle.spec["threads"])):
        evs = by.get(i, [])
        allows = [e for e in evs if e[1] == "br.allow"]
        recs = [e for e in evs if e[1] in ("br.success", "br.failure", "br.cancel")]
        if allows and not allows[0][2] and recs:
            return ("thread-race:rejected-call-reported", f"call {i} was rejected by the breaker, yet it reported {[r[1:3] for r in recs]}")
        if not allows or not allows[0][2]:
            continue
        if len(recs) != 1:
            return ("thread-race:records-per-call", f"call {i}: {len(recs)} breaker records {[r[1:3] for r in recs]}")
        fin = bundle.finals[i]
        ok = fin[0] == "return" or (fin[0] == "outcome" and fin[1].ok)
        if ok:
            if recs[0][1] != "br.success":
                return ("thread-race:wrong-record", f"call {i} succeeded but the breaker was told {recs[0][1:3]}")
            continue
        aborted = (fin[0] == "raise" and type(fin[1]).__name__ == "AbortRetryError") or (fin[0] == "outcome" and getattr(fin[1].stop_reason, "value", None) == "ABORTED")
        if aborted:
            if recs[0][1] != "br.cancel":
                return ("thread-race:wrong-record", f"call {i} was aborted but the breaker was told {recs[0][1:3]}")
            continue
        want = last_failure_class(bundle, i)
        if recs[0][1] != "br.failure" or recs[0][2] != want:
            return ("thread-race:wrong-record", f"call {i} ended with its own failure of class {want} but the breaker was told {recs[0][1:3]}")
    return None


def judge_probe(bundle):
    """C07 across threads: between the admission of a half-open probe and the first report after it, no other call is admitted."""
    if bundle.breaker is None:
        return None
    probe = None  # call whose probe is in flight
    for e in bundle.log:
        if e[1] == "br.allow":
            if e[2] and probe is not None:
                return ("thread-race:second-call-admitted-while-probe-in-flight", f"call {e[0]} was admitted (state {e[3]}) while the probe of call {probe} was still in flight")
            if e[2] and e[3] == "half_open":
                probe = e[0]
        elif e[1] in ("br.success", "br.failure", "br.cancel"):
            probe = None
    return None


def judge_wedge(bundle):
    """C08 across calls: once every call has ended nobody holds the probe slot; the breaker recovers (now and in the next outage)."""
    if bundle.after:
        return ("thread-race:breaker-wedged-after-overlapping-calls", bundle.after)
    return None


def judge_identity(bundle):
    """C04/C01 per call: what a call delivers is one of ITS OWN attempt objects; its operation ran at most max_attempts times."""
    spec = bundle.spec
    for i in range(len(spec["threads"])):
        if bundle.nops[i] > spec["max_attempts"]:
            return ("thread-race:attempt-cap", f"call {i}: {bundle.nops[i]} invocations, max_attempts={spec['max_attempts']}")
        fin = bundle.finals[i]
        if fin is None:
            return ("thread-race:no-delivery", f"call {i} delivered nothing")
        objs = []
        if fin[0] == "return":
            objs = [fin[1]]
        elif fin[0] == "raise":
            x = fin[1]
            if isinstance(x, RetryExhaustedError):
                objs = [o for o in (x.last_exception, x.last_result) if o is not None]
            else:
                objs = [x]
        else:
            o = fin[1]
            objs = [v for v in (o.value, o.last_exception, o.last_result) if v is not None]
        aborted = (fin[0] == "raise" and type(fin[1]).__name__ == "AbortRetryError") or (fin[0] == "outcome" and getattr(fin[1].stop_reason, "value", None) == "ABORTED")
        for o in objs:
            t = getattr(o, "tid", None)
            if t is not None and t != i:
                return ("thread-race:foreign-object", f"call {i} delivered {o!r}, an object of call {t}")
            if aborted:
                continue  # an aborted run describes the failure before the abort (C11's business)
            if t is not None and getattr(o, "idx", None) != bundle.nops[i] - 1:
                return ("thread-race:not-last-attempt", f"call {i} delivered {o!r} but its last attempt was #{bundle.nops[i]}")
    return None


def judge_escape(bundle):
    """C11 per call: execute() returns an outcome, call() raises only what the call's own attempts produced (or RetryExhaustedError /
    CircuitOpenError): an error of the library's own shared machinery never escapes because another call was running."""
    from redress import AbortRetryError, CircuitOpenError

    for i, fin in enumerate(bundle.finals):
        if fin is None or fin[0] != "raise":
            continue
        x = fin[1]
        if isinstance(x, (TExc, RetryExhaustedError, CircuitOpenError, AbortRetryError)):
            continue
        return ("thread-race:foreign-error-escaped", f"call {i} ({bundle.spec['threads'][i].get('entry', 'call')}) ended with {x!r}, which none of its attempts raised")
    return None


def judge_caps(bundle):
    """C01 per call: retries granted after failures of class K (the call's own `retry` events) never exceed per_class_max_attempts[K]."""
    lim = bundle.spec.get("per_class") or {}
    by = per_thread(bundle)
    for i in range(len(bundle.spec["threads"])):
        per = {}
        for e in by.get(i, []):
            if e[1] == "event" and e[2] == "retry":
                k = e[6].get("class")
                per[k] = per.get(k, 0) + 1
        for k, n in per.items():
            if k in lim and n > lim[k]:
                return ("thread-race:per-class-cap", f"call {i}: {n} retries granted after {k} failures, per_class_max_attempts[{k}]={lim[k]}")
    return None


def judge_delays(bundle):
    """C05 per call: the delay of a retry is the value of the strategy registered for THAT failure's class (table "per-class")."""
    if bundle.spec.get("strategy") != "per-class":
        return None
    by = per_thread(bundle)
    for i in range(len(bundle.spec["threads"])):
        for e in by.get(i, []):
            if e[1] == "strategy" and len(e) > 4:
                want = e[3] if e[3] in CLASS_DELAY else "default"
                if e[4] != want:
                    return ("thread-race:wrong-strategy-entry", f"call {i}: a {e[3]} failure was handed to the strategy registered for '{e[4]}'")
            if e[1] == "event" and e[2] == "retry":
                k = e[6].get("class")
                want = CLASS_DELAY.get(k, DEFAULT_DELAY)
                if e[4] != want:
                    return ("thread-race:wrong-delay", f"call {i}: retry after a {k} failure reports sleep_s={e[4]}; the strategy registered for that class returns {want}")
            if e[1] == "event" and e[2] == "no_strategy_configured":
                return ("thread-race:wrong-strategy-entry", f"call {i}: no_strategy_configured although a default strategy is registered")
    return None


def judge_envelope(bundle):
    """C02 per call, measured from THAT call's own start: no attempt begins once more than deadline_s has elapsed, no sleep is
    requested for longer than the time then remaining."""
    dl = bundle.spec.get("deadline_s")
    if dl is None:
        return None
    for e in bundle.log:
        i = e[0]
        if i < 0 or bundle.starts[i] is None:
            continue
        if e[1] == "op" and e[2] > 1:
            el = e[3] - bundle.starts[i]
            if el > dl + 1e-6:
                return ("overlap:attempt-after-deadline", f"call {i}: attempt {e[2]} began {el}s after the start of that call, deadline_s={dl}")
        elif e[1] == "sleep":
            el = e[3] - bundle.starts[i]
            if e[2] > dl - el + 1e-6:
                return ("overlap:sleep-exceeds-remaining", f"call {i}: sleep of {e[2]}s requested {el}s after the start of that call, deadline_s={dl} (remaining {dl - el})")
    return None


def describe_final(fin):
    if fin is None:
        return "nothing"
    if fin[0] == "outcome":
        o = fin[1]
        return f"outcome ok={o.ok} stop_reason={getattr(o.stop_reason, 'value', None)} attempts={o.attempts}"
    return f"{fin[0]} {fin[1]!r}"[:160]


JUDGES = {"events": judge_events, "tokens": judge_tokens, "breaker": judge_breaker, "identity": judge_identity, "probe": judge_probe, "wedge": judge_wedge,
          "escape": judge_escape, "caps": judge_caps, "delays": judge_delays, "envelope": judge_envelope}


def explore(ctx, spec, judges, bound, limit, nrandom, rng, prop_key=""):
    """DFS within the pre-emption bound, then random walks.  Returns number of distinct schedules (None after a violation)."""
    seen = set()
    prefix = []
    n = 0
    mode = "dfs"
    rw = 0
    tag = "overlap" if spec.get("mode") == "async" else "thread"
    deep = sched.Deepening(bound, limit)
    while True:
        r = run_schedule(spec, prefix=prefix if mode == "dfs" else (), rng=None if mode == "dfs" else rng)
        s = r["sched"]
        n += 1
        key = tuple(x[1] for x in s.trace)
        seen.add(key)
        ctx.cnt[tag + "_schedules_run"] += 1
        ctx.cnt[tag + "_switch_points"] += len(s.trace)
        ctx.cnt["thread_lock_contention"] += s.contention
        ctx.cnt["schedules_at_level:" + (spec.get("mode") or spec.get("level", "callbacks"))] += 1
        if not r["completed"] and not s.deadlock:
            ctx.inconclusive_because(f"scheduler watchdog fired for thread program {spec}")
            return None
        if s.deadlock:
            ctx.viol("thread-race:deadlock", f"all threads blocked: {spec}; schedule {list(key)}", {"tspec": spec, "schedule": list(key)})
            return None
        if r["errors"]:
            ctx.viol("thread-race:harness-error", f"{r['errors']} in {spec}; schedule {list(key)}", {"tspec": spec, "schedule": list(key)})
            return None
        b = r["bundle"]
        for jn in judges:
            bad = JUDGES[jn](b)
            if bad:
                ctx.viol(bad[0], f"[{'tasks' if tag == 'overlap' else 'threads'}] {bad[1]}; program {spec}; schedule {list(key)}", {"tspec": spec, "schedule": list(key), "judges": list(judges)})
                return None
        if len(set(x[1] for x in s.trace)) > 1:
            ctx.cnt[tag + "_schedules_with_switches"] += 1
        if mode == "dfs":
            nxt = deep.next(s.trace)
            if nxt is None:
                if deep.exhausted:
                    ctx.cnt[tag + "_programs_dfs_exhausted"] += 1
                mode = "random"
                if nrandom <= 0:
                    break
                continue
            prefix = nxt
        else:
            rw += 1
            if rw >= nrandom:
                break
    ctx.cnt[tag + "_programs"] += 1
    for k_ in seen:
        ctx.add_hash(tag + "_schedules", [spec, list(k_)])
    return len(seen)


def gen_spec(rng, *, budget=True, breaker=False, shared_policy=None, level="callbacks", strategy=None, mode=None, deadline=False, long_ops=False, nested=False):
    n = rng.choice([2, 2, 3])
    mx = rng.randint(2, 3)
    sp = {"max_attempts": mx, "delay": rng.choice([0.0, 0.25, 1.0]), "threads": []}
    if level != "callbacks":
        sp["level"] = level
    if mode:
        sp["mode"] = mode
    if strategy:
        sp["strategy"] = strategy
    if budget:
        sp["budget"] = {"max": rng.randint(1, 2), "window": 10.0, "prefill": 0}
    if breaker:
        sp["breaker"] = {"threshold": rng.randint(1, 3), "window": 100.0, "recovery": 5.0, "init": rng.choice(["closed", "closed", "expired"])}
    if deadline:
        sp["deadline_s"] = rng.choice([1.0, 2.0, 3.0])
        sp["delay"] = rng.choice([0.25, 0.5, 1.0])
    sp["shared_policy"] = rng.random() < 0.5 if shared_policy is None else shared_policy
    classes = ["TRANSIENT", "RATE_LIMIT", "SERVER_ERROR", "PERMANENT", "UNKNOWN"]
    if strategy == "per-class":
        sp["per_class"] = {"RATE_LIMIT": 1}
    for _ in range(n):
        outs = []
        for _a in range(mx):
            x = rng.random()
            if x < 0.06:
                outs.append(["abort"])
            elif x < 0.2:
                outs.append(["ok"])
            elif x < 0.45:
                outs.append(["res", rng.choice(classes)])
            else:
                outs.append(["exc", rng.choice(classes)])
        durs = [0.0, 0.5, 6.0] if long_ops else [0.0, 0.5]
        th = {"entry": rng.choice(["call", "execute"]), "outcomes": outs, "hooks": rng.random() < 0.6, "dur": [rng.choice(durs) for _ in range(mx)]}
        if nested and mode != "async" and sp["shared_policy"] and not budget and not breaker and rng.random() < 0.5:
            # only without budget/breaker: their spies attribute operations to the outer call
            th["nested"] = {"at": rng.randrange(mx), "fails": rng.random() < 0.5}
        sp["threads"].append(th)
    return sp


def replay(payload):
    spec = payload["tspec"]
    r = run_schedule(spec, prefix=payload["schedule"])
    b = r["bundle"]
    for ev in b.log:
        print("   ", ev)
    print("    finals:", [describe_final(f) for f in b.finals], "| continuation:", b.after or "breaker recovers / n.a.")
    bad = r["sched"].deadlock or bool(r["errors"])
    for jn in payload.get("judges", list(JUDGES)):
        v = JUDGES[jn](b)
        if v:
            print("   ", v)
            bad = True
    print("replay:", "violation reproduced" if bad else "no violation on this tree")
    return 1 if bad else 0


FIXED = [
    # one token, two calls that both want it (check-then-act on the shared budget)
    {"max_attempts": 2, "delay": 0.25, "budget": {"max": 1, "window": 10.0, "prefill": 0}, "shared_policy": False,
     "threads": [{"entry": "execute", "outcomes": [["exc", "TRANSIENT"], ["exc", "TRANSIENT"]], "hooks": False}, {"entry": "call", "outcomes": [["res", "TRANSIENT"], ["ok"]], "hooks": False}]},
    {"max_attempts": 3, "delay": 0.0, "budget": {"max": 2, "window": 10.0, "prefill": 1}, "shared_policy": True,
     "threads": [{"entry": "call", "outcomes": [["exc", "RATE_LIMIT"]], "hooks": True}, {"entry": "execute", "outcomes": [["res", "SERVER_ERROR"]], "hooks": False}, {"entry": "call", "outcomes": [["exc", "TRANSIENT"], ["ok"]], "hooks": False}]},
    # one policy object, one breaker: a call ending PERMANENT while another is retrying TRANSIENT failures
    {"max_attempts": 3, "delay": 0.25, "breaker": {"threshold": 3, "window": 100.0, "recovery": 5.0, "init": "closed"}, "shared_policy": True,
     "threads": [{"entry": "call", "outcomes": [["exc", "PERMANENT"]], "hooks": True}, {"entry": "call", "outcomes": [["exc", "TRANSIENT"], ["exc", "TRANSIENT"], ["ok"]], "hooks": True}]},
    {"max_attempts": 2, "delay": 0.25, "breaker": {"threshold": 2, "window": 100.0, "recovery": 5.0, "init": "expired"}, "shared_policy": True,
     "threads": [{"entry": "execute", "outcomes": [["res", "SERVER_ERROR"], ["res", "PERMANENT"]], "hooks": True}, {"entry": "execute", "outcomes": [["exc", "RATE_LIMIT"], ["ok"]], "hooks": True}]},
    # the recovery timeout has just elapsed and several threads call at once
    {"max_attempts": 1, "delay": 0.0, "breaker": {"threshold": 1, "window": 100.0, "recovery": 5.0, "init": "expired"}, "shared_policy": True,
     "threads": [{"entry": "call", "outcomes": [["ok"]], "hooks": False}, {"entry": "call", "outcomes": [["ok"]], "hooks": False}, {"entry": "execute", "outcomes": [["exc", "TRANSIENT"]], "hooks": False}]},
    {"max_attempts": 2, "delay": 0.25, "breaker": {"threshold": 2, "window": 100.0, "recovery": 5.0, "init": "expired"}, "shared_policy": False,
     "threads": [{"entry": "execute", "outcomes": [["exc", "TRANSIENT"], ["ok"]], "hooks": True}, {"entry": "call", "outcomes": [["ok"]], "hooks": True}]},
    # a call admitted while the circuit is closed is still running when another call has tripped it and the timeout has passed
    {"max_attempts": 1, "delay": 0.0, "breaker": {"threshold": 1, "window": 100.0, "recovery": 5.0, "init": "closed"}, "shared_policy": True,
     "threads": [{"entry": "call", "outcomes": [["ok"]], "hooks": False, "dur": [6.0]}, {"entry": "call", "outcomes": [["exc", "TRANSIENT"]], "hooks": False}]},
    {"max_attempts": 1, "delay": 0.0, "breaker": {"threshold": 1, "window": 100.0, "recovery": 5.0, "init": "closed"}, "shared_policy": True,
     "threads": [{"entry": "execute", "outcomes": [["exc", "SERVER_ERROR"]], "hooks": False, "dur": [6.0]}, {"entry": "execute", "outcomes": [["exc", "TRANSIENT"]], "hooks": False}]},
]

FIXED_COMPONENTS = [
    # a reader parked inside the budget's critical section while a failing call asks for its token
    {"level": "components", "max_attempts": 2, "delay": 0.25, "budget": {"max": 3, "window": 10.0, "prefill": 0}, "shared_policy": False,
     "threads": [{"entry": "execute", "outcomes": [["exc", "TRANSIENT"], ["ok"]], "hooks": False}, {"entry": "call", "outcomes": [["exc", "TRANSIENT"], ["ok"]], "hooks": False}]},
    # a probe ending by a cancel-type exit while another caller is inside allow()
    {"level": "components", "max_attempts": 2, "delay": 0.25, "breaker": {"threshold": 1, "window": 100.0, "recovery": 5.0, "init": "expired"}, "shared_policy": True,
     "threads": [{"entry": "call", "outcomes": [["exc", "TRANSIENT"], ["abort"]], "hooks": False}, {"entry": "execute", "outcomes": [["ok"]], "hooks": False}]},
    {"level": "components", "max_attempts": 1, "delay": 0.0, "breaker": {"threshold": 1, "window": 100.0, "recovery": 5.0, "init": "expired"}, "shared_policy": True,
     "threads": [{"entry": "execute", "outcomes": [["abort"]], "hooks": False}, {"entry": "call", "outcomes": [["ok"]], "hooks": False}, {"entry": "call", "outcomes": [["ok"]], "hooks": False}]},
    # one adaptive() strategy object shared by every call: a delay computation racing an outcome record
    {"level": "components", "strategy": "adaptive", "max_attempts": 3, "delay": 0.25, "shared_policy": True,
     "threads": [{"entry": "execute", "outcomes": [["exc", "TRANSIENT"], ["exc", "TRANSIENT"], ["ok"]], "hooks": False}, {"entry": "execute", "outcomes": [["exc", "SERVER_ERROR"], ["ok"]], "hooks": False}]},
]

FIXED_FIRST_USE = [
    # the very first failures a fresh policy object ever handles arrive from two threads at once (anything built lazily on first use)
    {"level": "lines", "strategy": "per-class", "per_class": {"RATE_LIMIT": 1}, "max_attempts": 4, "shared_policy": True,
     "threads": [{"entry": "call", "outcomes": [["exc", "TRANSIENT"], ["ok"]], "hooks": False}, {"entry": "call", "outcomes": [["exc", "RATE_LIMIT"], ["exc", "RATE_LIMIT"], ["exc", "RATE_LIMIT"], ["ok"]], "hooks": False}]},
    {"level": "lines", "strategy": "per-class", "per_class": {"RATE_LIMIT": 1}, "max_attempts": 3, "shared_policy": True,
     "threads": [{"entry": "execute", "outcomes": [["res", "SERVER_ERROR"], ["ok"]], "hooks": False}, {"entry": "execute", "outcomes": [["res", "RATE_LIMIT"], ["res", "RATE_LIMIT"], ["ok"]], "hooks": False}]},
]

FIXED_ASYNC = [
    # two tasks on ONE AsyncRetry: the second call starts while the first is in its backoff; each has its own deadline
    {"mode": "async", "deadline_s": 1.0, "max_attempts": 4, "delay": 0.5, "shared_policy": True,
     "threads": [{"entry": "call", "outcomes": [["exc", "TRANSIENT"]], "hooks": False, "dur": [0.25]}, {"entry": "call", "outcomes": [["exc", "TRANSIENT"]], "hooks": False, "dur": [0.25]}]},
    {"mode": "async", "deadline_s": 2.0, "max_attempts": 5, "delay": 0.5, "shared_policy": True,
     "threads": [{"entry": "execute", "outcomes": [["res", "SERVER_ERROR"]], "hooks": True, "dur": [0.5]}, {"entry": "call", "outcomes": [["exc", "TRANSIENT"], ["ok"]], "hooks": False, "dur": [1.0]},
                 {"entry": "execute", "outcomes": [["exc", "TRANSIENT"]], "hooks": False, "dur": [0.25]}]},
]


def thread_slice(ctx, tier, rng, judges, *, budget=True, breaker=False, nprog=None, components=False, first_use=False, tasks=False, long_ops=False):
    """The overlapping-calls workload of one check: the fixed programs that apply + random ones."""
    quick = tier == "quick"
    nprog = nprog if nprog is not None else ((8 if quick else 160) // max(ctx.nshards, 1) or 1)
    bound = 2
    limit = 150 if quick else 3000
    nrandom = 30 if quick else 300
    progs = [(sp, bound, limit, nrandom) for k, sp in enumerate(FIXED) if k % ctx.nshards == ctx.shard and (("budget" in sp and budget) or ("breaker" in sp and breaker))]
    for k in range(nprog):
        progs.append((gen_spec(rng, budget=budget if not breaker else (k % 2 == 0), breaker=breaker, long_ops=long_ops), bound, limit, nrandom))
    if components:
        for k, sp in enumerate(FIXED_COMPONENTS):
            if k % ctx.nshards == ctx.shard and (("budget" in sp and budget) or ("breaker" in sp and breaker) or sp.get("strategy") == "adaptive"):
                progs.append((sp, bound, 400 if quick else 6000, 40 if quick else 400))
        for k in range(max(nprog // 4, 1)):
            progs.append((gen_spec(rng, budget=budget, breaker=breaker and k % 2 == 0, level="components", strategy="adaptive" if k % 3 == 2 else None), bound, 200 if quick else 3000, 30 if quick else 300))
    if first_use:
        for k, sp in enumerate(FIXED_FIRST_USE):
            if k % ctx.nshards == ctx.shard:
                progs.append((sp, 1, 1500 if quick else 6000, 0))
    if tasks:
        for k, sp in enumerate(FIXED_ASYNC):
            if k % ctx.nshards == ctx.shard:
                progs.append((sp, 3, 300 if quick else 5000, 60 if quick else 600))
        for k in range(max(nprog // 2, 1)):
            progs.append((gen_spec(rng, budget=budget and k % 2 == 0, breaker=False, mode="async", deadline=True, shared_policy=True), 3, 200 if quick else 3000, 40 if quick else 400))
    for sp, bd, lim, nr in progs:
        n = explore(ctx, sp, judges, bd, lim, nr, rng)
        if n is None:
            return
        if len(ctx.samples) < ctx.MAX_SAMPLES and ctx.shard == 0 and not ctx.cnt["thread_sampled"]:
            ctx.cnt["thread_sampled"] += 1
            ctx.sample({"overlapping_calls_program": sp, "distinct_schedules_explored": n, "judges": list(judges)})
    sched.uninstall_monitor()


def floors(ctx, quick_min=300, components=False, first_use=False, tasks=False):
    f = {
        "thread_schedules_run": (ctx.cnt["thread_schedules_run"], quick_min),
        "thread_schedules_with_switches": (ctx.cnt["thread_schedules_with_switches"], quick_min // 2),
        "thread_programs": (ctx.cnt["thread_programs"], 4),
    }
    if components:
        f["schedules_at_level:components"] = (ctx.cnt["schedules_at_level:components"], 100)
    if first_use:
        f["schedules_at_level:lines"] = (ctx.cnt["schedules_at_level:lines"], 100)
    if tasks:
        f["overlap_schedules_run"] = (ctx.cnt["overlap_schedules_run"], 100)
    return f


RULE = (
    " + whole calls overlapping on a shared Budget / CircuitBreaker / strategy / policy object: sync calls racing in 2-3 threads (pre-emption at every lock operation of the shared components "
    "and at every callback; where stated also at every source line inside the components, or - on a fresh policy object, pre-emption bound 1 - at every source line of the package) and async calls "
    "interleaved at every suspension point; DFS with a pre-emption bound, then random walks: per-call oracles must hold in every schedule"
)
