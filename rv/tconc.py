"""Whole sync policy calls racing in threads on shared components (one Budget, one CircuitBreaker,
optionally one policy object).

Per-call state of the engine is private to a call; what can differ between schedules is the order
of accesses to the shared objects.  Pre-emption is therefore injected where those accesses happen
and where the engine calls out: at every lock operation of the shared Budget / CircuitBreaker
(scheduler-aware lock, rv.sched) and at every harness callback (operation, classifiers, strategy,
sleeper, hooks).  Schedules are enumerated depth-first under a pre-emption bound, then sampled by
seeded random walks; each is identified by its choice sequence.

Nothing here predicts the outcome of a race: the oracles are per-call statements that must hold
in every schedule (each call's own event stream, its own tokens, its own breaker record, its own
objects).
"""

from __future__ import annotations

from . import env, sched
from .models import BudgetModel

env.import_redress()

from redress import (  # noqa: E402
    Budget,
    CircuitBreaker,
    ErrorClass,
    Policy,
    Retry,
    RetryExhaustedError,
)

EC = ErrorClass
T0 = 1024.0
TERMINALS = {"success", "permanent_fail", "deadline_exceeded", "max_attempts_exceeded", "max_unknown_attempts_exceeded", "no_strategy_configured", "budget_exhausted", "scheduled", "aborted"}
BREAKER_EVENTS = {"circuit_opened", "circuit_half_open", "circuit_closed", "circuit_rejected"}


class TExc(Exception):
    def __init__(self, tid, idx, klass):
        super().__init__(f"T{tid}:{klass}@{idx}")
        self.tid, self.idx, self.rv_klass = tid, idx, klass


class TRes:
    def __init__(self, tid, idx, klass):
        self.tid, self.idx, self.rv_klass = tid, idx, klass

    def __repr__(self):
        return f"Res(T{self.tid}:{self.rv_klass}@{self.idx})"


class TVal:
    def __init__(self, tid, idx):
        self.tid, self.idx = tid, idx

    def __repr__(self):
        return f"Val(T{self.tid}@{self.idx})"


class Bundle:
    """The shared objects of one schedule plus the global log (tid, kind, ...)."""

    def __init__(self, spec, world):
        self.spec = spec
        self.world = world
        self.log = []
        me = self

        def who():
            t = sched.me()
            return -1 if t is None else t

        class SBudget(Budget):
            def consume(s, cost=1):
                r = super().consume(cost)
                me.log.append((who(), "consume", cost, r, world.t))
                return r

            def remaining(s):
                r = super().remaining()
                me.log.append((who(), "remaining", r, world.t))
                return r

        class SBreaker(CircuitBreaker):
            def allow(s):
                d = super().allow()
                me.log.append((who(), "br.allow", d.allowed, d.state.value, world.t))
                return d

            def record_success(s):
                r = super().record_success()
                me.log.append((who(), "br.success", r, world.t))
                return r

            def record_failure(s, klass):
                r = super().record_failure(klass)
                me.log.append((who(), "br.failure", getattr(klass, "name", repr(klass)), r, world.t))
                return r

            def record_cancel(s):
                r = super().record_cancel()
                me.log.append((who(), "br.cancel", world.t))
                return r

        world.t = T0
        b = spec.get("budget")
        self.budget = None
        if b:
            self.budget = SBudget(max_retries=b["max"], window_s=b["window"])
            for _ in range(b.get("prefill", 0)):
                Budget.consume(self.budget, 1)
        br = spec.get("breaker")
        self.breaker = None
        if br:
            self.breaker = SBreaker(failure_threshold=br["threshold"], window_s=br["window"], recovery_timeout_s=br["recovery"])
            if br.get("init") == "expired":
                for _ in range(br["threshold"]):
                    CircuitBreaker.record_failure(self.breaker, EC.TRANSIENT)
                world.t += br["recovery"] + 1.0
        n = len(spec["threads"])
        self.policies = []
        shared = None
        for i in range(n):
            if spec.get("shared_policy") and shared is not None:
                self.policies.append(shared)
                continue
            r = Retry(
                classifier=self.classifier,
                result_classifier=self.result_classifier,
                strategy=self.strategy,
                budget=self.budget,
                deadline_s=100000.0,
                max_attempts=spec["max_attempts"],
                max_unknown_attempts=None,
                per_class_max_attempts={EC[k]: v for k, v in (spec.get("per_class") or {}).items()},
            )
            pol = Policy(retry=r, circuit_breaker=self.breaker) if self.breaker is not None or spec.get("wrap") else r
            shared = pol
            self.policies.append(pol)
        self.finals = [None] * n
        self.nops = [0] * n

    # shared (policy-level) callbacks: the acting thread is the current one
    def classifier(self, e):
        t = sched.me()
        self.log.append((t, "classify", getattr(e, "tid", None), getattr(e, "idx", None), getattr(e, "rv_klass", "UNKNOWN")))
        sched.point()
        return EC[getattr(e, "rv_klass", "UNKNOWN")]

    def result_classifier(self, r):
        if isinstance(r, TRes):
            t = sched.me()
            self.log.append((t, "rclassify", r.tid, r.idx, r.rv_klass))
            sched.point()
            return EC[r.rv_klass]
        return None

    def strategy(self, ctx):
        self.log.append((sched.me(), "strategy", ctx.attempt, ctx.klass.name))
        sched.point()
        return self.spec.get("delay", 0.25)

    def run_call(self, i):
        th = self.spec["threads"][i]
        pol = self.policies[i]
        log = self.log
        world = self.world
        outs = th["outcomes"]

        def op():
            k = self.nops[i]
            self.nops[i] = k + 1
            log.append((i, "op", k + 1, world.t))
            sched.point()
            world.t += th.get("dur", 0.0)
            o = outs[k % len(outs)]
            if o[0] == "ok":
                return TVal(i, k)
            if o[0] == "res":
                return TRes(i, k, o[1])
            raise TExc(i, k, o[1])

        def sleeper(s):
            log.append((i, "sleep", s, world.t))
            sched.point()
            world.t += s

        def on_metric(event, attempt, sleep_s, tags):
            log.append((i, "event", event, attempt, sleep_s, world.t))
            sched.point()

        def astart(ctx):
            log.append((i, "astart", ctx.attempt))
            sched.point()

        def aend(ctx):
            log.append((i, "aend", ctx.attempt, ctx.decision.value if ctx.decision is not None else None))
            sched.point()

        kw = dict(on_metric=on_metric, sleeper=sleeper)
        if th.get("hooks", True):
            kw["on_attempt_start"] = astart
            kw["on_attempt_end"] = aend
        try:
            if th.get("entry", "call") == "execute":
                r = pol.execute(op, **kw)
                self.finals[i] = ("outcome", r)
            else:
                r = pol.call(op, **kw)
                self.finals[i] = ("return", r)
        except BaseException as x:  # noqa: BLE001 - the harness observes everything
            if isinstance(x, sched.Deadlock):
                raise
            self.finals[i] = ("raise", x)
        return i


def run_schedule(spec, prefix=(), rng=None):
    world = env.World()
    with env.active(world):
        holder = {}

        def make():
            holder["b"] = Bundle(spec, world)
            return holder["b"]

        programs = [[(lambda i: (lambda b: b.run_call(i)))(i)] for i in range(len(spec["threads"]))]
        r = sched.run_schedule(make, programs, prefix=prefix, rng=rng, line_level=False, preempt_p=0.15)
    r["bundle"] = holder["b"]
    return r


# ---------------------------------------------------------------------------------------- oracles
def per_thread(bundle):
    by = {}
    for ev in bundle.log:
        by.setdefault(ev[0], []).append(ev)
    return by


def judge_events(bundle):
    """C14 per call: the call's own event stream is retry* followed by exactly one terminal event."""
    by = per_thread(bundle)
    for i in range(len(bundle.spec["threads"])):
        evs = [e for e in by.get(i, []) if e[1] == "event" and e[2] not in BREAKER_EVENTS]
        names = [e[2] for e in evs]
        admitted = [e for e in by.get(i, []) if e[1] == "br.allow"]
        if admitted and not admitted[0][2]:
            continue  # rejected by the breaker: C07's business
        terms = [n for n in names if n in TERMINALS]
        if len(terms) != 1 or names[-1] not in TERMINALS or any(n != "retry" and n not in TERMINALS for n in names):
            return ("thread-race:event-grammar", f"call of thread {i}: event stream {names} is not retry* followed by exactly one terminal event (final {describe_final(bundle.finals[i])})")
        k = 0
        for e in evs:
            if e[2] == "retry":
                k += 1
                if e[3] != k:
                    return ("thread-race:retry-numbering", f"call of thread {i}: {k}-th retry event carries attempt={e[3]}")
    return None


def judge_tokens(bundle):
    """C10/C03 per call and attempt: one granted token per retry event; budget_exhausted reported exactly when the window really
    was full for this call; every grant and refusal agrees with the sliding-window model (the clock only moves inside operations
    and sleepers here, never inside a budget operation)."""
    spec = bundle.spec
    if not spec.get("budget"):
        return None
    model = BudgetModel(spec["budget"]["max"], spec["budget"]["window"])
    for _ in range(spec["budget"].get("prefill", 0)):
        model.commit(T0, 1, True)
    segs = {}
    allsegs = []
    for e in bundle.log:
        i = e[0]
        if e[1] == "op":
            if i in segs:
                segs[i]["next_op"] = True
            segs[i] = {"tid": i, "grants": 0, "refused": 0, "retry": 0, "exhausted": 0, "attempt": e[2], "next_op": False}
            allsegs.append(segs[i])
        elif e[1] == "consume":
            cost, ok, t = e[2], e[3], e[4]
            want = model.consume(t, cost)
            if ok not in want:
                lo, hi = model.live(t)
                return ("thread-race:over-grant" if ok else "thread-race:refused-although-capacity", f"call of thread {i}: consume({cost}) -> {ok} at t={t - T0}; {lo}..{hi} of {model.max} tokens live")
            model.commit(t, cost, ok)
            if i in segs:
                if ok:
                    segs[i]["grants"] += cost
                else:
                    segs[i]["refused"] += 1
        elif e[1] == "event" and i in segs:
            if e[2] == "retry":
                segs[i]["retry"] += 1
            elif e[2] == "budget_exhausted":
                segs[i]["exhausted"] += 1
                if model.consume(e[5], 1) == {True}:
                    lo, hi = model.live(e[5])
                    return ("thread-race:exhausted-although-capacity", f"call of thread {i} attempt {segs[i]['attempt']}: budget_exhausted reported at t={e[5] - T0} while only {hi} of {model.max} tokens were live")
    for s_ in allsegs:
        i = s_["tid"]
        if s_["next_op"] and s_["grants"] != 1:
            return ("thread-race:retry-without-token", f"call of thread {i}: attempt {s_['attempt']} was followed by another attempt with {s_['grants']} token(s) granted to this call in between")
        if s_["grants"] != s_["retry"]:
            return ("thread-race:token-retry-mismatch", f"call of thread {i} attempt {s_['attempt']}: {s_['grants']} token(s) granted but {s_['retry']} retry event(s)")
        if s_["refused"] and not s_["exhausted"]:
            return ("thread-race:refusal-not-reported", f"call of thread {i} attempt {s_['attempt']}: consume() refused but no budget_exhausted event (final {describe_final(bundle.finals[i])})")
    return None


def last_failure_class(bundle, i):
    k = None
    for e in bundle.log:
        if e[0] == i and e[1] in ("classify", "rclassify"):
            k = e[4]
    return k


def judge_breaker(bundle):
    """C09 per call: an admitted call tells the breaker exactly once, success or the class of ITS OWN final failure."""
    if bundle.breaker is None:
        return None
    by = per_thread(bundle)
    for i in range(len(bundle.spec["threads"])):
        evs = by.get(i, [])
        allows = [e for e in evs if e[1] == "br.allow"]
        if not allows or not allows[0][2]:
            continue
        recs = [e for e in evs if e[1] in ("br.success", "br.failure", "br.cancel")]
        if len(recs) != 1:
            return ("thread-race:records-per-call", f"call of thread {i}: {len(recs)} breaker records {[r[1:3] for r in recs]}")
        fin = bundle.finals[i]
        ok = fin[0] == "return" or (fin[0] == "outcome" and fin[1].ok)
        if ok:
            if recs[0][1] != "br.success":
                return ("thread-race:wrong-record", f"call of thread {i} succeeded but the breaker was told {recs[0][1:3]}")
            continue
        want = last_failure_class(bundle, i)
        if recs[0][1] != "br.failure" or recs[0][2] != want:
            return ("thread-race:wrong-record", f"call of thread {i} ended with its own failure of class {want} but the breaker was told {recs[0][1:3]}")
    return None


def judge_probe(bundle):
    """C07 across threads: between the admission of a half-open probe and the first report after it, no other call is admitted."""
    if bundle.breaker is None:
        return None
    probe = None  # thread whose probe is in flight
    for e in bundle.log:
        if e[1] == "br.allow":
            if e[2] and probe is not None:
                return ("thread-race:second-call-admitted-while-probe-in-flight", f"call of thread {e[0]} was admitted (state {e[3]}) while the probe of thread {probe}'s call was still in flight")
            if e[2] and e[3] == "half_open":
                probe = e[0]
        elif e[1] in ("br.success", "br.failure", "br.cancel"):
            probe = None
    return None


def judge_identity(bundle):
    """C04/C01 per call: what a call delivers is one of ITS OWN attempt objects; its operation ran at most max_attempts times."""
    spec = bundle.spec
    for i in range(len(spec["threads"])):
        if bundle.nops[i] > spec["max_attempts"]:
            return ("thread-race:attempt-cap", f"call of thread {i}: {bundle.nops[i]} invocations, max_attempts={spec['max_attempts']}")
        fin = bundle.finals[i]
        if fin is None:
            return ("thread-race:no-delivery", f"call of thread {i} delivered nothing")
        objs = []
        if fin[0] == "return":
            objs = [fin[1]]
        elif fin[0] == "raise":
            x = fin[1]
            if isinstance(x, RetryExhaustedError):
                objs = [o for o in (x.last_exception, x.last_result) if o is not None]
            else:
                objs = [x]
        else:
            o = fin[1]
            objs = [v for v in (o.value, o.last_exception, o.last_result) if v is not None]
        for o in objs:
            t = getattr(o, "tid", None)
            if t is not None and t != i:
                return ("thread-race:foreign-object", f"call of thread {i} delivered {o!r}, an object of thread {t}'s call")
            if t is not None and getattr(o, "idx", None) != bundle.nops[i] - 1:
                return ("thread-race:not-last-attempt", f"call of thread {i} delivered {o!r} but its last attempt was #{bundle.nops[i]}")
    return None


def describe_final(fin):
    if fin is None:
        return "nothing"
    if fin[0] == "outcome":
        o = fin[1]
        return f"outcome ok={o.ok} stop_reason={getattr(o.stop_reason, 'value', None)} attempts={o.attempts}"
    return f"{fin[0]} {fin[1]!r}"[:160]


JUDGES = {"events": judge_events, "tokens": judge_tokens, "breaker": judge_breaker, "identity": judge_identity, "probe": judge_probe}


def explore(ctx, spec, judges, bound, limit, nrandom, rng, prop_key=""):
    """DFS within the pre-emption bound, then random walks.  Returns number of distinct schedules (None after a violation)."""
    seen = set()
    prefix = []
    n = 0
    mode = "dfs"
    rw = 0
    while True:
        r = run_schedule(spec, prefix=prefix if mode == "dfs" else (), rng=None if mode == "dfs" else rng)
        s = r["sched"]
        n += 1
        key = tuple(x[1] for x in s.trace)
        seen.add(key)
        ctx.cnt["thread_schedules_run"] += 1
        ctx.cnt["thread_switch_points"] += len(s.trace)
        ctx.cnt["thread_lock_contention"] += s.contention
        if not r["completed"] and not s.deadlock:
            ctx.inconclusive_because(f"scheduler watchdog fired for thread program {spec}")
            return None
        if s.deadlock:
            ctx.viol("thread-race:deadlock", f"all threads blocked: {spec}; schedule {list(key)}", {"tspec": spec, "schedule": list(key)})
            return None
        if r["errors"]:
            ctx.viol("thread-race:harness-error", f"{r['errors']} in {spec}; schedule {list(key)}", {"tspec": spec, "schedule": list(key)})
            return None
        b = r["bundle"]
        for jn in judges:
            bad = JUDGES[jn](b)
            if bad:
                ctx.viol(bad[0], f"[threads] {bad[1]}; program {spec}; schedule {list(key)}", {"tspec": spec, "schedule": list(key), "judges": list(judges)})
                return None
        if len(set(x[1] for x in s.trace)) > 1:
            ctx.cnt["thread_schedules_with_switches"] += 1
        if mode == "dfs":
            nxt = sched.next_prefix(s.trace, bound)
            if nxt is None or n >= limit:
                if nxt is None:
                    ctx.cnt["thread_programs_dfs_exhausted"] += 1
                mode = "random"
                if nrandom <= 0:
                    break
                continue
            prefix = nxt
        else:
            rw += 1
            if rw >= nrandom:
                break
    ctx.cnt["thread_programs"] += 1
    for k_ in seen:
        ctx.add_hash("thread_schedules", [spec, list(k_)])
    return len(seen)


def gen_spec(rng, *, budget=True, breaker=False, shared_policy=None):
    n = rng.choice([2, 2, 3])
    mx = rng.randint(2, 3)
    sp = {"max_attempts": mx, "delay": rng.choice([0.0, 0.25, 1.0]), "threads": []}
    if budget:
        sp["budget"] = {"max": rng.randint(1, 2), "window": 10.0, "prefill": 0}
    if breaker:
        sp["breaker"] = {"threshold": rng.randint(1, 3), "window": 100.0, "recovery": 5.0, "init": rng.choice(["closed", "closed", "expired"])}
    sp["shared_policy"] = rng.random() < 0.5 if shared_policy is None else shared_policy
    classes = ["TRANSIENT", "RATE_LIMIT", "SERVER_ERROR", "PERMANENT", "UNKNOWN"]
    for _ in range(n):
        outs = []
        for _a in range(mx):
            x = rng.random()
            if x < 0.2:
                outs.append(["ok"])
            elif x < 0.45:
                outs.append(["res", rng.choice(classes)])
            else:
                outs.append(["exc", rng.choice(classes)])
        sp["threads"].append({"entry": rng.choice(["call", "execute"]), "outcomes": outs, "hooks": rng.random() < 0.6, "dur": rng.choice([0.0, 0.5])})
    return sp


def replay(payload):
    spec = payload["tspec"]
    r = run_schedule(spec, prefix=payload["schedule"])
    b = r["bundle"]
    for ev in b.log:
        print("   ", ev)
    print("    finals:", [describe_final(f) for f in b.finals])
    bad = r["sched"].deadlock or bool(r["errors"])
    for jn in payload.get("judges", list(JUDGES)):
        v = JUDGES[jn](b)
        if v:
            print("   ", v)
            bad = True
    print("replay:", "violation reproduced" if bad else "no violation on this tree")
    return 1 if bad else 0


FIXED = [
    # one token, two calls that both want it (check-then-act on the shared budget)
    {"max_attempts": 2, "delay": 0.25, "budget": {"max": 1, "window": 10.0, "prefill": 0}, "shared_policy": False,
     "threads": [{"entry": "execute", "outcomes": [["exc", "TRANSIENT"], ["exc", "TRANSIENT"]], "hooks": False}, {"entry": "call", "outcomes": [["res", "TRANSIENT"], ["ok"]], "hooks": False}]},
    {"max_attempts": 3, "delay": 0.0, "budget": {"max": 2, "window": 10.0, "prefill": 1}, "shared_policy": True,
     "threads": [{"entry": "call", "outcomes": [["exc", "RATE_LIMIT"]], "hooks": True}, {"entry": "execute", "outcomes": [["res", "SERVER_ERROR"]], "hooks": False}, {"entry": "call", "outcomes": [["exc", "TRANSIENT"], ["ok"]], "hooks": False}]},
    # one policy object, one breaker: a call ending PERMANENT while another is retrying TRANSIENT failures
    {"max_attempts": 3, "delay": 0.25, "breaker": {"threshold": 3, "window": 100.0, "recovery": 5.0, "init": "closed"}, "shared_policy": True,
     "threads": [{"entry": "call", "outcomes": [["exc", "PERMANENT"]], "hooks": True}, {"entry": "call", "outcomes": [["exc", "TRANSIENT"], ["exc", "TRANSIENT"], ["ok"]], "hooks": True}]},
    {"max_attempts": 2, "delay": 0.25, "breaker": {"threshold": 2, "window": 100.0, "recovery": 5.0, "init": "expired"}, "shared_policy": True,
     "threads": [{"entry": "execute", "outcomes": [["res", "SERVER_ERROR"], ["res", "PERMANENT"]], "hooks": True}, {"entry": "execute", "outcomes": [["exc", "RATE_LIMIT"], ["ok"]], "hooks": True}]},
    # the recovery timeout has just elapsed and several threads call at once
    {"max_attempts": 1, "delay": 0.0, "breaker": {"threshold": 1, "window": 100.0, "recovery": 5.0, "init": "expired"}, "shared_policy": True,
     "threads": [{"entry": "call", "outcomes": [["ok"]], "hooks": False}, {"entry": "call", "outcomes": [["ok"]], "hooks": False}, {"entry": "execute", "outcomes": [["exc", "TRANSIENT"]], "hooks": False}]},
    {"max_attempts": 2, "delay": 0.25, "breaker": {"threshold": 2, "window": 100.0, "recovery": 5.0, "init": "expired"}, "shared_policy": False,
     "threads": [{"entry": "execute", "outcomes": [["exc", "TRANSIENT"], ["ok"]], "hooks": True}, {"entry": "call", "outcomes": [["ok"]], "hooks": True}]},
]


def thread_slice(ctx, tier, rng, judges, *, budget=True, breaker=False, nprog=None):
    """The policy-level thread workload of one check: the fixed programs that apply + random ones."""
    quick = tier == "quick"
    nprog = nprog if nprog is not None else ((8 if quick else 160) // max(ctx.nshards, 1) or 1)
    bound = 2
    limit = 150 if quick else 3000
    nrandom = 30 if quick else 300
    progs = [sp for k, sp in enumerate(FIXED) if k % ctx.nshards == ctx.shard and (("budget" in sp and budget) or ("breaker" in sp and breaker))]
    for k in range(nprog):
        progs.append(gen_spec(rng, budget=budget if not breaker else (k % 2 == 0), breaker=breaker))
    for sp in progs:
        n = explore(ctx, sp, judges, bound, limit, nrandom, rng)
        if n is None:
            return
        if len(ctx.samples) < ctx.MAX_SAMPLES and ctx.shard == 0 and not ctx.cnt["thread_sampled"]:
            ctx.cnt["thread_sampled"] += 1
            ctx.sample({"thread_program": sp, "distinct_schedules_explored": n, "judges": list(judges)})


def floors(ctx, quick_min=300):
    return {
        "thread_schedules_run": (ctx.cnt["thread_schedules_run"], quick_min),
        "thread_schedules_with_switches": (ctx.cnt["thread_schedules_with_switches"], quick_min // 2),
        "thread_programs": (ctx.cnt["thread_programs"], 4),
    }


RULE = (
    " + whole sync calls racing in 2-3 threads on a shared Budget / CircuitBreaker / policy object (pre-emption at every lock operation of the shared components and at every "
    "callback; DFS with pre-emption bound 2, then random walks): per-call oracles must hold in every schedule"
)
