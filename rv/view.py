"""Structured view of one call's boundary trace: per-attempt segments and scripted facts."""

from __future__ import annotations

import math

from .rig import NONRETRY

TOL = 1e-6  # the engine compares timedeltas: microsecond resolution
TERMINALS = {
    "success",
    "permanent_fail",
    "deadline_exceeded",
    "max_attempts_exceeded",
    "max_unknown_attempts_exceeded",
    "no_strategy_configured",
    "budget_exhausted",
    "scheduled",
    "aborted",
}
BREAKER_EVENTS = {"circuit_opened", "circuit_half_open", "circuit_closed", "circuit_rejected"}
EVENT_REASON = {
    "permanent_fail": {"NON_RETRYABLE_CLASS"},
    "deadline_exceeded": {"DEADLINE_EXCEEDED"},
    "max_attempts_exceeded": {"MAX_ATTEMPTS_GLOBAL", "MAX_ATTEMPTS_PER_CLASS"},
    "max_unknown_attempts_exceeded": {"MAX_UNKNOWN_ATTEMPTS"},
    "no_strategy_configured": {"NO_STRATEGY"},
    "budget_exhausted": {"BUDGET_EXHAUSTED"},
    "scheduled": {"SCHEDULED"},
    "aborted": {"ABORTED"},
}


def num(v):
    if v == "nan":
        return math.nan
    if v == "inf":
        return math.inf
    if v == "-inf":
        return -math.inf
    return v


HUGE = 10**400


class Seg:
    __slots__ = (
        "i",
        "t_op",
        "t_fail",
        "out",
        "kind",
        "klass",
        "cause",
        "events",
        "polls",
        "strategies",
        "consumes",
        "retries",
        "terminals",
        "handlers",
        "bsleeps",
        "sleeps",
        "obj",
        "count_k",
        "count_u",
        "poll_true",
        "classifies",
        "t_decide",
        "budget_full",
    )


class View:
    def __init__(self, rec, sc):
        self.rec = rec
        self.sc = sc
        cfg = sc["cfg"]
        # public attributes reassigned between calls (sc["calls"][k]["set"]): the configuration in force for THIS call
        sets = [c["set"] for c in sc["calls"][: (rec.idx or 0) + 1] if c.get("set")] if not rec.entry.lstrip("a").startswith("deco") and not (cfg.get("no_retry") and rec.entry.lstrip("a").startswith("policy.")) else []
        if sets:
            cfg = dict(cfg)
            for st in sets:
                cfg.update(st)
        self.cfg = cfg
        self.env = e = rec.env
        self.trace = tr = rec.trace
        self.pre = []
        self.segs = []
        cur = None
        counts = {}
        self.no_retry = bool(cfg.get("no_retry")) and rec.entry.lstrip("a").startswith("policy.")
        rc_on = cfg.get("result_classifier", True) and not self.no_retry
        for ev in tr:
            if ev[0] == "op":
                s = Seg()
                s.i = ev[1]
                s.t_op = ev[2]
                i0 = s.i - 1
                s.out = e["outcomes"][i0 % len(e["outcomes"])]
                d = e["durations"][i0 % len(e["durations"])]
                s.t_fail = s.t_op + d
                k = s.out[0]
                s.klass = None
                s.cause = None
                if k == "exc_same":
                    k = "exc"
                if k == "res_none":
                    k = "res"
                if k == "res" and not rc_on:
                    k = "ok"
                if k == "sp" and s.out[1] in ("nested_open", "timeout"):
                    k = "exc"
                    s.klass = s.out[2] if len(s.out) > 2 and s.out[2] else ("UNKNOWN" if s.out[1] == "nested_open" else "TRANSIENT")
                elif k in ("exc", "res"):
                    s.klass = s.out[1]
                s.t_decide = s.t_fail
                s.kind = k
                if k == "exc":
                    s.cause = "exception"
                elif k == "res":
                    s.cause = "result"
                s.events = []
                s.polls = []
                s.strategies = []
                s.consumes = []
                s.retries = []
                s.terminals = []
                s.handlers = []
                s.bsleeps = []
                s.sleeps = []
                s.classifies = []
                s.budget_full = False
                s.obj = rec.objs.get(i0)
                if self.no_retry and k == "exc" and s.obj is not None:
                    # no retry component: the policy classifies with default_classifier
                    from redress import default_classifier

                    s.klass = default_classifier(s.obj).name
                if s.klass is not None:
                    counts[s.klass] = counts.get(s.klass, 0) + 1
                    s.count_k = counts[s.klass]
                else:
                    s.count_k = 0
                s.count_u = counts.get("UNKNOWN", 0)
                s.poll_true = False
                self.segs.append(s)
                cur = s
                continue
            if cur is None:
                self.pre.append(ev)
                continue
            cur.events.append(ev)
            t = ev[0]
            if t == "poll":
                cur.polls.append(ev)
                if ev[2]:
                    cur.poll_true = True
            elif t == "strategy":
                cur.strategies.append(ev)
            elif t == "budget":
                cur.consumes.append(ev)
            elif t == "budget_level":
                # the budget's own answer at the moment `budget_exhausted` was reported (0 tokens left = the window is full)
                if ev[1] < 1:
                    cur.budget_full = True
            elif t == "metric":
                if ev[1] == "retry":
                    cur.retries.append(ev)
                elif ev[1] in TERMINALS:
                    cur.terminals.append(ev)
            elif t == "handler":
                cur.handlers.append(ev)
            elif t == "before_sleep":
                cur.bsleeps.append(ev)
            elif t in ("sleep", "dsleep"):
                cur.sleeps.append(ev)
            elif t in ("classify", "rclassify"):
                cur.classifies.append(ev)
            elif t == "srec" and ev[1] == "failure":
                cur.t_decide = max(cur.t_decide, ev[4])  # the engine re-reads the clock after strategy.record_failure
        self._phantom_handler_answers()
        self.nops = len(self.segs)
        self.pre_poll_true = any(ev[0] == "poll" and ev[2] for ev in self.pre)
        self.pre_terminals = [ev for ev in self.pre if ev[0] == "metric" and ev[1] in TERMINALS]
        self.deadline = cfg["deadline_s"]
        self.final = rec.final
        self.is_execute = rec.entry.endswith(".execute")

    def winner(self, name):
        """Which of the configured callbacks of kind `name` (handler / before_sleep / sleeper) governs THIS call: "call", "policy" or None."""
        place = self.sc.get("place") or {}
        where = place.get(name, "call" if name == "sleeper" else "none")
        deco = self.rec.entry.lstrip("a").startswith("deco")
        if not deco:
            kw_ = {"handler": "sleep"}.get(name, name)
            if kw_ in (self.env.get("drop_call_kw") or ()):
                where = {"call": "none", "both": "policy"}.get(where, where)  # a per-call argument this particular call did not pass
        if where in (None, "none"):
            return None
        if deco:
            return "policy"
        return "call" if where in ("call", "both") else "policy"

    def _phantom_handler_answers(self):
        """A configured sleep handler that the library did not consult although it went on to sleep or to attempt again still has
        an answer: the one its script holds for that consultation.  Recording it (marked) lets every oracle that follows handler
        decisions judge the run against what the caller's handler says, not against what the library chose to ask."""
        wh = self.winner("handler")
        script = self.env.get("handler")
        if wh is None or not script:
            return
        asked = 0
        for j, s in enumerate(self.segs):
            if s.handlers:
                asked += len(s.handlers)
                continue
            moved_on = bool(s.sleeps or s.bsleeps or j + 1 < len(self.segs))
            if s.retries and moved_on and not s.poll_true:
                s.handlers.append(("handler", wh, s.i, s.retries[-1][3], script[asked % len(script)], "not-consulted"))
                asked += 1

    # ------------------------------------------------------------------ facts
    def all_terminals(self):
        out = list(self.pre_terminals)
        for s in self.segs:
            out.extend(s.terminals)
        return out

    def all_metric(self, include_breaker=False):
        out = []
        for ev in self.trace:
            if ev[0] == "metric" and (include_breaker or ev[1] not in BREAKER_EVENTS):
                out.append(ev)
        return out

    def strategy_exists(self, klass):
        return klass in self.cfg.get("class_strategies", ()) or self.cfg.get("default_strategy", True)

    def sleep_end_time(self, s):
        """Virtual elapsed time right after the (last) sleep of segment s."""
        if not s.sleeps:
            return None
        ev = s.sleeps[-1]
        if ev[0] == "sleep":
            delay, t = ev[2], ev[3]
            # overshoot index = global sleep index: count configured sleeps before this one
            idx = 0
            for x in self.trace:
                if x is ev:
                    break
                if x[0] == "sleep":
                    idx += 1
            ov = self.env["overshoot"]
            over = ov[idx % len(ov)]
        else:
            delay, t = ev[1], ev[2]
            over = 0.0
        add = delay if (delay == delay and delay > 0 and delay != math.inf) else 0.0
        return t + add + over

    def static_permit(self, s):
        """The static part of C03's permit predicate for failed segment s.
        Returns (value, which) where value is True/False/None (None: inside the 1 us band) and
        which lists the false conjuncts."""
        cfg = self.cfg
        false = []
        if s.klass in NONRETRY:
            false.append("nonretry")
        if not self.strategy_exists(s.klass):
            false.append("nostrategy")
        lim = (cfg.get("per_class") or {}).get(s.klass)
        if lim is not None and s.count_k > lim:
            false.append("perclass")
        mu = cfg.get("max_unknown")
        if s.klass == "UNKNOWN" and mu is not None and s.count_u > mu:
            false.append("unknown")
        if s.i >= cfg["max_attempts"]:
            false.append("global")
        aop = self.env.get("abort_after_op")
        if aop is not None and s.i >= aop:
            false.append("abort-requested")  # the abort flag was raised while this attempt was in flight
        band = False
        if s.t_decide >= self.deadline:
            false.append("deadline")
        elif s.t_decide > self.deadline - TOL:
            band = True
        if false:
            return False, false
        if band:
            return None, ["deadline-band"]
        return True, []

    def last_failed(self):
        for s in reversed(self.segs):
            if s.kind in ("exc", "res"):
                return s
        return None

    def reported_reason(self):
        """Stop reason as delivered to the caller (outcome / RetryExhaustedError), else None."""
        kind, val = self.final
        if kind == "return" and self.is_execute:
            sr = getattr(val, "stop_reason", None)
            return sr.value if sr is not None else None
        if kind == "raise" and type(val).__name__ == "RetryExhaustedError":
            if any(val is o for o in self.rec.objs.values()):
                return None  # the operation's own (nested) error, not this run's verdict
            return val.stop_reason.value
        return None
