#!/usr/bin/env python3
"""Automatic single-point mutants of the library, as a measure of what the monitors notice.

For every source file under src/redress (cli, testing helpers and contrib excluded) every mutation point of a small operator set is
turned into one mutant (the file re-rendered with ast.unparse, so the diff is against the re-rendered original). Stage 1 runs the
repository's own test suite on a scratch copy: a mutant that fails it is not "a change that passes the existing tests" and is dropped.
Stage 2 runs the property checks against the copy (VERIF_REPO=<copy>, quick tier): first the checks whose property is anchored in
the mutated file, then the other checks that exercise that file (all twenty with --all-checks), stopping at the first check that exits 1. A mutant no check flags is a SURVIVOR: either equivalent
(behaviour-preserving under the twenty properties) or a gap. Survivors are listed with their diff for triage by hand.

usage: tools/auto_mutants.py [--jobs N] [--files a.py,b.py] [--limit K] [--sample P] [--out mutants/AUTO]
Scratch copies live under /tmp and are removed after each mutant.
"""

import argparse
import ast
import concurrent.futures as cf
import copy
import difflib
import json
import os
import random
import re
import shutil
import subprocess
import sys
import tempfile

ROOT = os.path.dirname(os.path.dirname(os.path.abspath(__file__)))
REPO = os.environ.get("VERIF_REPO_BASE", "/repo")
PY = "/venv/bin/python"
ALL = [f"C{i:02d}" for i in range(1, 21)]
SKIP = ("cli.py", "testing/", "contrib/", "metrics.py", "__init__.py",
        # classifiers for optional libraries that are not installed here: only their import-guarded fallback can run
        "extras/aiohttp.py", "extras/boto3.py", "extras/grpc.py", "extras/redis.py", "extras/urllib3.py")
# checks worth running on a mutant of a file, beyond those whose property is anchored in it (a survivor costs one run of each)
ALSO = {
    "src/redress/circuit.py": ["C06", "C07", "C08", "C09", "C17", "C14", "C12"],
    "src/redress/budget.py": ["C10", "C17", "C03", "C01"],
    "src/redress/strategies.py": ["C18", "C20", "C05", "C16", "C02"],
    "src/redress/classify.py": ["C19", "C20", "C01"],
    "src/redress/extras/": ["C19", "C20"],
    "src/redress/policy/": ["C03", "C12", "C14", "C11", "C04", "C05", "C13", "C16", "C08", "C09", "C01", "C02", "C15"],
    "src/redress/config.py": ["C12", "C03"],
    "src/redress/errors.py": ["C04", "C11", "C19"],
}

CMP = {ast.Lt: ast.LtE, ast.LtE: ast.Lt, ast.Gt: ast.GtE, ast.GtE: ast.Gt, ast.Eq: ast.NotEq, ast.NotEq: ast.Eq, ast.Is: ast.IsNot, ast.IsNot: ast.Is,
       ast.In: ast.NotIn, ast.NotIn: ast.In}
BIN = {ast.Add: ast.Sub, ast.Sub: ast.Add, ast.Mult: ast.Div, ast.Div: ast.Mult}


class Mut(ast.NodeTransformer):
    """Visits in a fixed order; applies the mutation with index `target` (or just counts, target=None)."""

    def __init__(self, target=None):
        self.n = 0
        self.target = target
        self.desc = None
        self.in_annotation = 0

    def hit(self, desc):
        i = self.n
        self.n += 1
        if self.target is not None and i == self.target:
            self.desc = desc
            return True
        return False

    # never descend into annotations / decorators' type expressions
    def visit_AnnAssign(self, node):
        if node.value is not None:
            node.value = self.visit(node.value)
        return node

    def visit_arguments(self, node):
        node.defaults = [self.visit(d) for d in node.defaults]
        node.kw_defaults = [self.visit(d) if d is not None else None for d in node.kw_defaults]
        return node

    def visit_FunctionDef(self, node):
        node.args = self.visit(node.args)
        body = node.body
        if body and isinstance(body[0], ast.Expr) and isinstance(body[0].value, ast.Constant) and isinstance(body[0].value.value, str):
            node.body = [body[0]] + self._stmts(body[1:])
        else:
            node.body = self._stmts(body)
        return node

    visit_AsyncFunctionDef = visit_FunctionDef

    def _stmts(self, body):
        out = []
        for st in body:
            r = self.visit(st)
            if isinstance(r, list):
                out.extend(r)
            elif r is not None:
                out.append(r)
        return out or [ast.Pass()]

    def visit_ClassDef(self, node):
        node.body = self._stmts(node.body)
        return node

    def visit_If(self, node):
        if self.hit(f"L{node.lineno}: negate if-condition"):
            node.test = ast.UnaryOp(op=ast.Not(), operand=node.test)
            return node
        return self.generic_visit(node)

    def visit_Compare(self, node):
        for i, op in enumerate(node.ops):
            t = CMP.get(type(op))
            if t and self.hit(f"L{node.lineno}: {type(op).__name__} -> {t.__name__}"):
                node.ops[i] = t()
                return node
        return self.generic_visit(node)

    def visit_BoolOp(self, node):
        if self.hit(f"L{node.lineno}: {type(node.op).__name__} -> {'Or' if isinstance(node.op, ast.And) else 'And'}"):
            node.op = ast.Or() if isinstance(node.op, ast.And) else ast.And()
            return node
        return self.generic_visit(node)

    def visit_UnaryOp(self, node):
        if isinstance(node.op, ast.Not) and self.hit(f"L{node.lineno}: drop 'not'"):
            return node.operand
        return self.generic_visit(node)

    def visit_BinOp(self, node):
        t = BIN.get(type(node.op))
        if t and self.hit(f"L{node.lineno}: {type(node.op).__name__} -> {t.__name__}"):
            node.op = t()
            return node
        return self.generic_visit(node)

    def visit_Constant(self, node):
        v = node.value
        if isinstance(v, bool):
            if self.hit(f"L{node.lineno}: {v} -> {not v}"):
                return ast.copy_location(ast.Constant(value=not v), node)
        elif isinstance(v, int):
            if self.hit(f"L{node.lineno}: {v} -> {v + 1}"):
                return ast.copy_location(ast.Constant(value=v + 1), node)
            if v != 0 and self.hit(f"L{node.lineno}: {v} -> {v - 1}"):
                return ast.copy_location(ast.Constant(value=v - 1), node)
        elif isinstance(v, float):
            if self.hit(f"L{node.lineno}: {v} -> {v + 1.0}"):
                return ast.copy_location(ast.Constant(value=v + 1.0), node)
        return node

    def visit_Call(self, node):
        if isinstance(node.func, ast.Name) and node.func.id in ("min", "max"):
            o = "max" if node.func.id == "min" else "min"
            if self.hit(f"L{node.lineno}: {node.func.id}() -> {o}()"):
                node.func = ast.Name(id=o, ctx=ast.Load())
                return node
        return self.generic_visit(node)

    def visit_Expr(self, node):
        if isinstance(node.value, (ast.Call, ast.Await)) and self.hit(f"L{node.lineno}: delete statement `{ast.unparse(node)[:70]}`"):
            return ast.copy_location(ast.Pass(), node)
        return self.generic_visit(node)

    def visit_AugAssign(self, node):
        if self.hit(f"L{node.lineno}: delete statement `{ast.unparse(node)[:70]}`"):
            return ast.copy_location(ast.Pass(), node)
        return self.generic_visit(node)

    def visit_Assign(self, node):
        if all(isinstance(t, (ast.Attribute, ast.Subscript)) for t in node.targets) and self.hit(f"L{node.lineno}: delete statement `{ast.unparse(node)[:70]}`"):
            return ast.copy_location(ast.Pass(), node)
        return self.generic_visit(node)

    def visit_Return(self, node):
        if node.value is not None and not (isinstance(node.value, ast.Constant) and node.value.value is None):
            if self.hit(f"L{node.lineno}: return None instead of `{ast.unparse(node.value)[:60]}`"):
                node.value = ast.Constant(value=None)
                return node
        return self.generic_visit(node)

    def visit_Raise(self, node):
        if node.exc is None and self.hit(f"L{node.lineno}: delete bare `raise`"):
            return ast.copy_location(ast.Pass(), node)
        return self.generic_visit(node)

    def visit_Break(self, node):
        if self.hit(f"L{node.lineno}: break -> continue"):
            return ast.copy_location(ast.Continue(), node)
        return node

    def visit_Continue(self, node):
        if self.hit(f"L{node.lineno}: continue -> break"):
            return ast.copy_location(ast.Break(), node)
        return node

    def visit_ExceptHandler(self, node):
        if isinstance(node.type, ast.Tuple) and len(node.type.elts) > 1:
            for i, e in enumerate(node.type.elts):
                if self.hit(f"L{node.lineno}: except clause loses {ast.unparse(e)}"):
                    node.type = copy.deepcopy(node.type)
                    del node.type.elts[i]
                    node.body = self._stmts(node.body)
                    return node
        node.body = self._stmts(node.body)
        return node

    def visit_Try(self, node):
        node.body = self._stmts(node.body)
        node.handlers = [self.visit(h) for h in node.handlers]
        node.orelse = [self.visit(s) for s in node.orelse]
        if node.finalbody:
            if self.hit(f"L{node.lineno}: empty the finally block"):
                node.finalbody = [ast.Pass()]
            else:
                node.finalbody = self._stmts(node.finalbody)
        return node


def files():
    base = os.path.join(REPO, "src", "redress")
    out = []
    for dp, _, fns in os.walk(base):
        for fn in sorted(fns):
            rel = os.path.relpath(os.path.join(dp, fn), REPO)
            if fn.endswith(".py") and not any(s in rel for s in SKIP):
                out.append(rel)
    return sorted(out)


def anchored():
    m = {}
    for ln in open(os.path.join(ROOT, "properties.jsonl"), encoding="utf-8"):
        if ln.strip():
            d = json.loads(ln)
            for f in d["anchors"]["files"]:
                m.setdefault(f, []).append(d["id"])
    return m


def enumerate_mutants(rel):
    src = open(os.path.join(REPO, rel), encoding="utf-8").read()
    tree = ast.parse(src)
    base = ast.unparse(tree)
    c = Mut()
    c.visit(copy.deepcopy(tree))
    out = []
    for i in range(c.n):
        m = Mut(i)
        t = m.visit(copy.deepcopy(tree))
        ast.fix_missing_locations(t)
        try:
            text = ast.unparse(t)
            compile(text, rel, "exec")
        except Exception:  # noqa: BLE001
            continue
        if text == base or m.desc is None:
            continue
        out.append({"file": rel, "index": i, "desc": m.desc, "text": text, "base": base})
    return out


def one(m, order, tier):
    d = tempfile.mkdtemp(prefix="rv-am-", dir="/tmp")
    res = {"id": m["id"], "file": m["file"], "desc": m["desc"]}
    try:
        subprocess.run(["rsync", "-a", "--exclude", ".git", "--exclude", ".hypothesis", "--exclude", "docs", "--exclude", "__pycache__", REPO + "/", d + "/"], check=True)
        open(os.path.join(d, m["file"]), "w", encoding="utf-8").write(m["text"] + "\n")
        envv = dict(os.environ, PYTHONPATH=os.path.join(d, "src"), PYTHONDONTWRITEBYTECODE="1")
        try:
            r = subprocess.run([PY, "-m", "pytest", "-q", "-p", "no:cacheprovider", "--no-cov", "-x", "--timeout=120"], cwd=d, env=envv, capture_output=True, text=True, timeout=600)
            res["suite"] = "pass" if r.returncode == 0 else "FAIL"
        except subprocess.TimeoutExpired:
            res["suite"] = "FAIL"
        if res["suite"] != "pass":
            return res
        res["checks"] = {}
        for prop in order:
            e2 = dict(os.environ, VERIF_REPO=d, VERIF_SEED="0")
            try:
                r = subprocess.run([os.path.join(ROOT, "check"), prop, "--tier", tier], cwd=ROOT, env=e2, capture_output=True, text=True, timeout=1500)
                rc, outp = r.returncode, r.stdout
            except subprocess.TimeoutExpired:
                rc, outp = 2, "timeout"
            keys = re.findall(r"keys: (\{.*\})", outp)
            res["checks"][prop] = {"exit": rc, "keys": keys[-1][:200] if keys else ""}
            if rc == 1:
                res["caught_by"] = prop
                break
        if "caught_by" not in res:
            res["diff"] = "".join(difflib.unified_diff(m["base"].splitlines(True), m["text"].splitlines(True), "a/" + m["file"], "b/" + m["file"], n=4))
    finally:
        shutil.rmtree(d, ignore_errors=True)
    return res


def main():
    ap = argparse.ArgumentParser()
    ap.add_argument("--jobs", type=int, default=4)
    ap.add_argument("--tier", default="quick")
    ap.add_argument("--files", default="")
    ap.add_argument("--limit", type=int, default=0)
    ap.add_argument("--sample", type=float, default=1.0)
    ap.add_argument("--list", action="store_true")
    ap.add_argument("--all-checks", action="store_true")
    ap.add_argument("--out", default=os.path.join(ROOT, "mutants", "AUTO"))
    a = ap.parse_args()
    anch = anchored()
    fl = [f for f in files() if not a.files or any(f.endswith(x) for x in a.files.split(","))]
    muts = []
    for f in fl:
        ms = enumerate_mutants(f)
        for m in ms:
            m["id"] = f"{os.path.relpath(f, 'src/redress')}#{m['index']}"
        muts.extend(ms)
        print(f"{f}: {len(ms)} mutants", flush=True)
    rnd = random.Random(12345)
    if a.sample < 1.0:
        muts = [m for m in muts if rnd.random() < a.sample]
    if a.limit:
        muts = muts[: a.limit]
    print(f"total {len(muts)} mutants", flush=True)
    if a.list:
        for m in muts:
            print(m["id"], m["desc"])
        return 0
    prev = {}
    if os.path.exists(a.out + ".json"):
        prev = {r["id"] + "|" + r["desc"]: r for r in json.load(open(a.out + ".json"))}
    results = []

    def job(m):
        k = m["id"] + "|" + m["desc"]
        if k in prev and (prev[k].get("suite") == "FAIL" or prev[k].get("caught_by")):
            return prev[k]
        first = anch.get(m["file"], [])
        more = next((v for k, v in ALSO.items() if m["file"].startswith(k)), ALL)
        order = first + [p for p in (ALL if a.all_checks else more) if p not in first]
        if k in prev and prev[k].get("checks") and all(p in prev[k]["checks"] for p in order):
            return prev[k]
        return one(m, order, a.tier)

    with cf.ThreadPoolExecutor(max_workers=a.jobs) as ex:
        for r in ex.map(job, muts):
            results.append(r)
            st = "suite-killed" if r["suite"] != "pass" else ("caught by " + r["caught_by"] if r.get("caught_by") else "SURVIVOR " + str({p: c["exit"] for p, c in r["checks"].items() if c["exit"]}))
            print(f"{r['id']:44s} {r['desc'][:70]:70s} {st}", flush=True)
            if len(results) % 20 == 0:
                json.dump(results, open(a.out + ".partial.json", "w"), indent=1)
    allr = {r["id"] + "|" + r["desc"]: r for r in prev.values()}
    for r in results:
        allr[r["id"] + "|" + r["desc"]] = r
    json.dump(list(allr.values()), open(a.out + ".json", "w"), indent=1)
    rs = list(allr.values())
    alive = [r for r in rs if r["suite"] == "pass"]
    surv = [r for r in alive if not r.get("caught_by")]
    with open(a.out + ".md", "w", encoding="utf-8") as f:
        f.write(f"mutants generated: {len(rs)}; killed by the repository's own suite: {len(rs) - len(alive)}; passing the suite: {len(alive)}; "
                f"flagged by a property check: {len(alive) - len(surv)}; survivors: {len(surv)}\n\n")
        by = {}
        for r in alive:
            by.setdefault(r["file"], [0, 0])
            by[r["file"]][0] += 1
            by[r["file"]][1] += 1 if r.get("caught_by") else 0
        f.write("| file | suite-passing mutants | flagged |\n|---|---|---|\n")
        for k in sorted(by):
            f.write(f"| {k} | {by[k][0]} | {by[k][1]} |\n")
        f.write("\n## Survivors\n\n")
        for r in surv:
            f.write(f"### {r['id']} - {r['desc']}\n\n```diff\n{r.get('diff', '')}```\n\n")
    print(f"suite-passing {len(alive)}, flagged {len(alive) - len(surv)}, survivors {len(surv)}")
    return 0


if __name__ == "__main__":
    sys.exit(main())
