#!/usr/bin/env python3
"""Regenerate the mutation-audit and seeded-change tables of DESIGN.md (between the BEGIN/END markers)."""
import glob
import json
import os
import re

ROOT = os.path.dirname(os.path.dirname(os.path.abspath(__file__)))


def seeded_table():
    rows = ["| id | change | caught by (violation keys, quick tier) |", "|---|---|---|"]
    for d in sorted(glob.glob(os.path.join(ROOT, "seeded", "*", "meta.json")), key=lambda p: (os.path.basename(os.path.dirname(p)).split("-")[0], int(os.path.basename(os.path.dirname(p)).split("-")[1]))):
        m = json.load(open(d))
        note = m.get("needs_to_manifest", "")
        first = [ln.strip("# ").strip() for ln in note.splitlines() if ln.strip()][:1]
        title = first[0] if first else ""
        title = re.sub(r"^(Seed(ed)? (bug )?\d? ?\(?C\d\d\)?:?|Seed C\d\d / bug \d|C\d\d seed(ed bug)? \d|Bug \d)\s*[-—:(]*\s*", "", title)
        ck = m["checks"]
        caught = [f"{p}: {re.sub(r'[{}]', '', c['violation_keys'])[:90]}" for p, c in ck.items() if c["exit"] == 1]
        missed = [p for p, c in ck.items() if c["exit"] != 1]
        cell = "; ".join(caught) + (f" — not flagged by {','.join(missed)}" if missed else "")
        rows.append(f"| {m['id']} | {title[:130]} | {cell} |")
    return "\n".join(rows)


def main():
    p = os.path.join(ROOT, "DESIGN.md")
    s = open(p, encoding="utf-8").read()
    res = open(os.path.join(ROOT, "mutants", "RESULTS.md"), encoding="utf-8").read().strip()
    for name, body in (("MUTATION-TABLE", res), ("SEEDED-TABLE", seeded_table())):
        a, b = f"<!-- BEGIN {name} -->", f"<!-- END {name} -->"
        i, j = s.index(a) + len(a), s.index(b)
        s = s[:i] + "\n" + body + "\n" + s[j:]
    open(p, "w", encoding="utf-8").write(s)
    print("tables regenerated")


if __name__ == "__main__":
    main()
