#!/usr/bin/env python3
"""Regenerate MANIFEST.json from the table below; only properties whose check module exists are
claimed, the others are listed under not_applicable with the reason 'not built yet'."""

import json
import os

ROOT = os.path.dirname(os.path.dirname(os.path.abspath(__file__)))

ENGINES = [
    {"name": "rv-trace", "path": "rv/rig.py", "serves_properties": ["C01", "C02", "C03", "C04", "C05", "C09", "C11", "C12", "C14", "C16"],
     "kind_free_text": "scenario runner driving the real entry points (20 of them) with recording stubs on a virtual clock; oracles over the boundary trace (rv/oracles.py)"},
    {"name": "rv-model", "path": "rv/models.py", "serves_properties": ["C06", "C07", "C10"],
     "kind_free_text": "online shadow models (breaker, budget) stepped next to the real objects; bounded-exhaustive + random histories; coroutine interleaver"},
    {"name": "rv-fault", "path": "rv/checks/c08.py", "serves_properties": ["C08", "C13", "C15"],
     "kind_free_text": "fault enumeration over run-time discovered injection points: callback invocations, suspension points, hook invocations"},
    {"name": "rv-sched", "path": "rv/sched.py", "serves_properties": ["C17"],
     "kind_free_text": "controlled thread scheduler: sys.monitoring LINE pre-emption + scheduler-aware lock; linearizability against sequential permutations"},
    {"name": "rv-func", "path": "rv/checks/c18.py", "serves_properties": ["C18", "C19", "C20"],
     "kind_free_text": "postcondition/totality monitors on the real strategy, classifier and parser callables under adversarial inputs and random draws"},
]

T = {
    "C01": ("exploration", "cap-counting monitor over boundary traces + reuse-vs-fresh differential (runtime monitoring)",
            "Counts operation invocations of the real engine against max_attempts / per-class / UNKNOWN / non-retryable caps on every observed run: bounded-exhaustive sweep of outcome strings x cap grids plus seeded random scenarios over all 20 entry points, and a differential showing a reused policy object behaves like a fresh one. Exploration is the right level: the property is a safety property of finite runs and the monitor is exact on each run.",
            "5 C01", "scripted classifier decides classes; caps up to 6 attempts / limits up to 3; virtual clock"),
    "C02": ("exploration", "deadline-envelope monitor on a virtual monotonic clock + hostile wall-clock differential (runtime monitoring)",
            "Every attempt start and every requested sleep of the real engine is checked against the deadline on a virtual monotonic clock that only the workload advances (grid and off-grid boundary timings), and each scenario is re-run under a differently jumping wall clock and must produce the identical trace.",
            "5 C02", "time reaches the library only through the interposed time module functions; +-1us band = engine's timedelta resolution"),
    "C03": ("exploration", "biconditional permit monitor per failed attempt + waste and stop-reason monitors (runtime monitoring)",
            "For every failed attempt of every observed run: 'a next attempt happened' <=> the permit predicate evaluated on the observed trace (class, strategy table, caps, deadline, observed budget answer, observed poll answers, observed handler decision); no budget token / retry event / sleep after a failure that can not be retried; the reported stop reason must hold.",
            "5 C03", "scripted classes; the budget's own answer is taken as observed (C10 checks it)"),
    "C04": ("exploration", "identity/traceback monitor on the object leaving call() (runtime monitoring)",
            "Identity (is) of the returned value / raised exception against unique scripted objects, traceback walk, RetryExhaustedError field checks, for every stop reason x cause x entry.",
            "5 C04", "scripted unique objects"),
    "C05": ("exploration", "data-flow monitor: strategy arguments -> sanitised delay -> handler/sleeper/event/next_sleep_s (runtime monitoring)",
            "Each strategy invocation's table entry and arguments and every downstream observer of the delay are compared with the trace-derived expectation, incl. NaN/inf/negative/over-remaining values and legacy signatures.",
            "5 C05", "remaining time compared within 1us"),
    "C06": ("exploration", "online shadow model of the breaker next to the real CircuitBreaker; bounded-exhaustive + random histories (runtime monitoring)",
            "A 40-line sequential model transcribing the property is stepped with the same operations and clock readings as the real breaker; every observable result must be in the model's allowed set (set-valued only at exact boundary ages).",
            "5 C06", "the model is the specification; exact-equality ages are don't-care"),
    "C07": ("exploration", "shadow breaker model at policy level + coroutine interleaver for concurrent async calls (runtime monitoring)",
            "Policy-level call histories and all interleavings of small sets of concurrent async calls are run against the real Policy/AsyncPolicy + CircuitBreaker; operation invocations while the model says rejected, multiple probes in flight, and post-probe state are checked.",
            "5 C07", "virtual clock; manual coroutine driver"),
    "C08": ("fault_enumeration", "fault enumeration: termination kind x suspension point x callback invocation, black-box 'is the next call admitted?' (runtime monitoring)",
            "Every way and point at which an admitted call can end is enumerated from a clean run of the same scenario (suspension points, callback invocations, termination kinds); after each, the breaker must have been told the call is over and must admit a call after the recovery timeout.",
            "5 C08", "faults are injected at the callback/suspension boundary, not between arbitrary bytecodes"),
    "C09": ("exploration", "spy-breaker accounting monitor: exactly one record of the right kind/class per admitted call (runtime monitoring)",
            "Counts record_success/failure/cancel between an admitting allow() and the end of each call and compares kind and class with the scripted final outcome, over all stop reasons, causes, entry points and call sequences sharing a breaker.",
            "5 C09", "scripted classes"),
    "C10": ("exploration", "shadow sliding-window model + interval-count monitor over the grant log; shared-budget policy workloads (runtime monitoring)",
            "Every consume()/remaining() answer of the real Budget is compared with a 15-line model; the grant log is swept for any window holding more than max_retries tokens; policy workloads sharing a budget check token <-> retry correspondence.",
            "5 C10", "exact-equality ages are don't-care"),
    "C11": ("exploration", "outcome-faithfulness monitor: RetryOutcome fields vs trace, identity (runtime monitoring)",
            "Every field of every RetryOutcome returned by the real execute() is compared with the boundary trace; exceptions leaving execute() must be of the allowed kinds.",
            "5 C11", "KF1 is recognised only by its exact mechanism"),
    "C12": ("exploration", "trace differential across 20 entry points (runtime monitoring)",
            "The same scenario is executed through every entry point and the projected traces (operations, strategy calls, sleeps, events, budget and breaker interactions, canonical final) must be equal.",
            "5 C12", "classifier call counts and attempt hooks are not projected"),
    "C13": ("fault_enumeration", "poll-placement monitor + cancellation injection at every operation/sleep/suspension point (runtime monitoring)",
            "abort_if placement is checked on every run; the first-True poll index, cancellation-type exceptions at every attempt and sleep index, and throws at every suspension point of async runs are enumerated from clean runs.",
            "5 C13", "injection at callback/suspension granularity"),
    "C14": ("exploration", "event-stream grammar monitor, three-sink parity, stop-reason agreement (runtime monitoring)",
            "A grammar automaton (retry* terminal) and tag/field comparisons run over the metric, log and timeline streams of every observed run; breaker events are matched against the spy.",
            "5 C14", ""),
    "C15": ("fault_enumeration", "hook-fault enumeration, differential against the silent-hook run (runtime monitoring)",
            "For each scenario each hook x each invocation index (+always) x exception types is made to raise and the run's projection must equal the silent run's; the other sinks must still receive every event.",
            "5 C15", "Exception subclasses only (the property's scope)"),
    "C16": ("exploration", "sleep-handler protocol monitor + placement matrix (runtime monitoring)",
            "Per granted retry: handler consulted once with the delay, SLEEP/DEFER/ABORT consequences, call-level over policy-level precedence for handler, before_sleep and sleeper, default sleeper when none is configured.",
            "5 C16", ""),
    "C17": ("exploration", "controlled thread scheduler (sys.monitoring LINE pre-emption) + linearizability check against sequential runs (runtime monitoring)",
            "Small concurrent programs over the real Budget/CircuitBreaker are executed under a token-passing scheduler that can pre-empt before every source line; each schedule's results must equal some sequential ordering; deadlocks are detected; free-running stress as second line.",
            "5 C17", "pre-emption at source-line granularity within a pre-emption bound"),
    "C18": ("exploration", "postcondition monitors on the real strategy callables under adversarial random draws (runtime monitoring)",
            "Envelope/totality postconditions wrap the real strategy callables; attempts up to 1e30, adversarial draws (endpoints), adaptive histories.",
            "5 C18", "cap computed overflow-free"),
    "C19": ("exploration", "totality + documented-table monitors on the real classifiers under hostile exception objects (runtime monitoring)",
            "Every classifier is called on generated exception objects (types, names, attribute values of every built-in kind); totality, table, precedence and metamorphic renaming are asserted.",
            "5 C19", "optional libraries absent: only the fallback branch is exercised"),
    "C20": ("exploration", "totality/hint monitors on the real Retry-After parser/classifier + end-to-end policy runs with retry_after_or (runtime monitoring)",
            "Header values of every shape are fed to the real classifier; definite input classes get exact expectations; end-to-end runs check the delay against hint, jitter and remaining time.",
            "5 C20", "dates compared within a 5 s tolerance (datetime.now is not interposable)"),
}


def main():
    checks, na = [], []
    for pid in sorted(T):
        level, tech, text, ref, note = T[pid]
        if not os.path.exists(os.path.join(ROOT, "rv", "checks", pid.lower() + ".py")):
            na.append({"property_id": pid, "reason": "check not built yet (planned, see DESIGN.md section " + ref + ")"})
            continue
        engine = next((e["name"] for e in ENGINES if pid in e["serves_properties"]), "rv-trace")
        checks.append({
            "property_id": pid,
            "quick_cmd": f"./check {pid} --tier quick",
            "thorough_cmd": f"./check {pid} --tier thorough",
            "evidence_file": f"evidence/{pid}.json",
            "replay_cmd_template": f"./check {pid} --replay {{path}}",
            "engine": engine,
            "level_claimed": {"category": level, "text": text, "design_ref": "DESIGN.md section " + ref},
            "level_note": note or "observed executions only",
            "technique": tech,
        })
    man = {
        "version": 1,
        "setup_cmd": "./check --selftest",
        "hooks": {
            "guard": "REDRESS_VERIF",
            "enable": "no source hooks are needed: checks import $VERIF_REPO/src (default /repo/src) directly and observe at the public callback boundary",
            "baseline_off_cmd": "cd /repo && /venv/bin/python -m pytest -ra -q -p no:cacheprovider --timeout=900 --continue-on-collection-errors",
            "source_commits": [],
            "add_only": True,
        },
        "engines": ENGINES,
        "checks": checks,
        "notes": "Runtime monitoring only. Exit codes: 0 held (possibly with KNOWN-FINDING lines), 1 VIOLATION, 2 INCONCLUSIVE. VERIF_SEED / VERIF_TIER are honoured. VERIF_REPO selects the tree under test (default /repo).",
        "not_applicable": na,
    }
    with open(os.path.join(ROOT, "MANIFEST.json"), "w", encoding="utf-8") as f:
        json.dump(man, f, indent=1)
    print("claimed", [c["property_id"] for c in checks], "not yet", [n["property_id"] for n in na])


if __name__ == "__main__":
    main()
