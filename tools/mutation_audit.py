#!/usr/bin/env python3
"""Mutation audit: apply each catalogued edit to a scratch copy of /repo (under /tmp, removed
afterwards), run the repository's own test suite there (the edit must still pass it, otherwise
it is not a 'realistic change that passes the existing tests'), then run the designated
property checks with VERIF_REPO pointing at the copy (each must exit 1 with a VIOLATION).

usage: tools/mutation_audit.py [--jobs N] [--tier quick] [--all-checks] [--catalog mutants/catalog.json] [id ...]
Results: mutants/RESULTS.json and mutants/RESULTS.md
"""

import argparse
import concurrent.futures as cf
import difflib
import json
import os
import re
import shutil
import subprocess
import sys
import tempfile

ROOT = os.path.dirname(os.path.dirname(os.path.abspath(__file__)))
REPO = os.environ.get("VERIF_REPO_BASE", "/repo")
PY = "/venv/bin/python"
ALL = [f"C{i:02d}" for i in range(1, 21)]


def apply(m, d):
    p = os.path.join(d, m["file"])
    s = open(p, encoding="utf-8").read()
    n = s.count(m["old"])
    if n != 1:
        return f"PATTERN COUNT {n}"
    s2 = s.replace(m["old"], m["new"])
    for o, nn in m.get("extra") or []:
        if s2.count(o) != 1:
            return "EXTRA PATTERN COUNT"
        s2 = s2.replace(o, nn)
    open(p, "w", encoding="utf-8").write(s2)
    diff = "".join(difflib.unified_diff(s.splitlines(True), s2.splitlines(True), "a/" + m["file"], "b/" + m["file"]))
    for e in m.get("edits") or []:
        pe = os.path.join(d, e["file"])
        se = open(pe, encoding="utf-8").read()
        if se.count(e["old"]) != 1:
            return f"EDIT PATTERN COUNT {se.count(e['old'])} in {e['file']}"
        se2 = se.replace(e["old"], e["new"])
        open(pe, "w", encoding="utf-8").write(se2)
        diff += "".join(difflib.unified_diff(se.splitlines(True), se2.splitlines(True), "a/" + e["file"], "b/" + e["file"]))
    os.makedirs(os.path.join(ROOT, "mutants", "patches"), exist_ok=True)
    open(os.path.join(ROOT, "mutants", "patches", m["id"] + ".patch"), "w", encoding="utf-8").write(diff)
    return None


def one(m, tier, all_checks, skip_suite):
    d = tempfile.mkdtemp(prefix="rv-mut-" + m["id"] + "-", dir="/tmp")
    res = {"id": m["id"], "props": m["props"], "file": m["file"], "equivalent": bool(m.get("equivalent"))}
    try:
        subprocess.run(["rsync", "-a", "--exclude", ".git", "--exclude", ".hypothesis", "--exclude", "docs", "--exclude", "__pycache__", REPO + "/", d + "/"], check=True)
        err = apply(m, d)
        if err:
            res["error"] = err
            return res
        envv = dict(os.environ, PYTHONPATH=os.path.join(d, "src"), PYTHONDONTWRITEBYTECODE="1")
        if not skip_suite:
            r = subprocess.run([PY, "-m", "pytest", "-q", "-p", "no:cacheprovider", "--no-cov", "-x", "--timeout=300"], cwd=d, env=envv, capture_output=True, text=True)
            lines = [ln for ln in r.stdout.strip().splitlines() if ln.strip()]
            res["suite"] = "pass" if r.returncode == 0 else "FAIL"
            res["suite_tail"] = lines[-1] if lines else ""
        else:
            res["suite"] = "skipped"
        res["checks"] = {}
        for prop in (ALL if (all_checks or m.get("equivalent")) else m["props"]):
            if not os.path.exists(os.path.join(ROOT, "rv", "checks", prop.lower() + ".py")):
                continue
            e2 = dict(os.environ, VERIF_REPO=d, VERIF_SEED=str(m.get("seed", 0)))
            r = subprocess.run([os.path.join(ROOT, "check"), prop, "--tier", tier], cwd=ROOT, env=e2, capture_output=True, text=True)
            keys = re.findall(r"keys: (\{.*\})", r.stdout)
            res["checks"][prop] = {"exit": r.returncode, "keys": keys[-1][:300] if keys else "", "tail": r.stdout.strip().splitlines()[-1][:200] if r.stdout.strip() else ""}
    finally:
        shutil.rmtree(d, ignore_errors=True)
    return res


def main():
    ap = argparse.ArgumentParser()
    ap.add_argument("ids", nargs="*")
    ap.add_argument("--jobs", type=int, default=4)
    ap.add_argument("--tier", default="quick")
    ap.add_argument("--all-checks", action="store_true")
    ap.add_argument("--skip-suite", action="store_true")
    ap.add_argument("--catalog", default=os.path.join(ROOT, "mutants", "catalog.json"))
    ap.add_argument("--out", default=os.path.join(ROOT, "mutants", "RESULTS"))
    a = ap.parse_args()
    cat = json.load(open(a.catalog, encoding="utf-8"))
    if a.ids:
        cat = [m for m in cat if m["id"] in a.ids]
    results = []
    with cf.ThreadPoolExecutor(max_workers=a.jobs) as ex:
        for r in ex.map(lambda m: one(m, a.tier, a.all_checks, a.skip_suite), cat):
            results.append(r)
            if "error" in r:
                print(f"{r['id']:8s} ERROR {r['error']}")
                continue
            caught = [p for p, c in r["checks"].items() if c["exit"] == 1]
            missed = [p for p in r["props"] if p in r["checks"] and r["checks"][p]["exit"] != 1]
            if r.get("equivalent"):
                nonzero = {p: c["exit"] for p, c in r["checks"].items() if c["exit"] != 0}
                print(f"{r['id']:8s} suite={r['suite']:5s} EQUIVALENT edit: non-zero exits {nonzero or 'none'}")
            else:
                print(f"{r['id']:8s} suite={r['suite']:5s} caught_by={caught} missed_by_designated={missed}")
            sys.stdout.flush()
    prev = {}
    if a.ids and os.path.exists(a.out + ".json"):
        prev = {r["id"]: r for r in json.load(open(a.out + ".json"))}
    for r in results:
        prev[r["id"]] = r
    allr = list(prev.values()) if a.ids else results
    json.dump(allr, open(a.out + ".json", "w"), indent=1)
    with open(a.out + ".md", "w", encoding="utf-8") as f:
        f.write("| mutant | file | repo suite | designated checks | caught by | verdict |\n|---|---|---|---|---|---|\n")
        for r in allr:
            if "error" in r:
                f.write(f"| {r['id']} | {r['file']} | - | - | - | not applicable to this tree ({r['error']}) |\n")
                continue
            caught = [p for p, c in r["checks"].items() if c["exit"] == 1]
            if r.get("equivalent"):
                bad = [p for p, c in r["checks"].items() if c["exit"] != 0]
                f.write(f"| {r['id']} | {r['file']} | {r['suite']} | all 20 (behaviour-preserving edit) | {','.join(bad)} | {'FALSE ALARM' if bad else 'all checks stay green'} |\n")
                continue
            if r["suite"] == "FAIL":
                verdict = "killed by the repository's own tests (not a realistic surviving change)"
            elif all(p in caught for p in r["props"] if p in r["checks"]):
                verdict = "CAUGHT"
            elif caught:
                verdict = "caught (by other check)"
            else:
                verdict = "MISSED"
            f.write(f"| {r['id']} | {r['file']} | {r['suite']} | {','.join(r['props'])} | {','.join(caught)} | {verdict} |\n")
    return 0


if __name__ == "__main__":
    sys.exit(main())
