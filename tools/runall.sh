#!/bin/sh
# Run every implemented check (tier $1, default quick) and print one summary line per check.
cd "$(dirname "$0")/.." || exit 2
tier="${1:-quick}"; shift
rc=0
for f in rv/checks/c[0-9][0-9].py; do
  id=$(basename "$f" .py | tr c C)
  out=$(./check "$id" --tier "$tier" "$@" 2>&1); code=$?
  echo "$id exit=$code :: $(echo "$out" | grep -v '^WARNING' | tail -1 | cut -c1-200)"
  echo "$out" | grep -E '^(VIOLATION|INCONCLUSIVE|KNOWN-FINDING)' | cut -c1-220 | head -5
  [ $code -ne 0 ] && rc=1
done
exit $rc
