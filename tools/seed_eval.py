#!/usr/bin/env python3
"""Evaluate a seeded change produced by an independent sub-agent and, if it is confirmed,
store it under /verif/seeded/<id>/.

usage: tools/seed_eval.py <property> <k> [--src /tmp/seed-<property>/_seed] [--all-checks] [--tier quick] [--no-store]

Confirmation (all done here, in a scratch copy of /repo under /tmp that is removed afterwards):
  1. the patch applies to the current /repo tree;
  2. the repository's own suite still passes with it;
  3. the demonstration fails with the patch and passes without it.
Then the designated check (and optionally every check) is run with VERIF_REPO=<scratch copy>.
"""

import argparse
import json
import os
import re
import shutil
import subprocess
import sys
import tempfile

ROOT = os.path.dirname(os.path.dirname(os.path.abspath(__file__)))
PY = "/venv/bin/python"
ALL = [f"C{i:02d}" for i in range(1, 21)]


def sh(cmd, **kw):
    return subprocess.run(cmd, capture_output=True, text=True, **kw)


def main():
    ap = argparse.ArgumentParser()
    ap.add_argument("prop")
    ap.add_argument("k")
    ap.add_argument("--src", default=None)
    ap.add_argument("--all-checks", action="store_true")
    ap.add_argument("--tier", default="quick")
    ap.add_argument("--no-store", action="store_true")
    ap.add_argument("--checks", default=None, help="comma list of checks to run instead of the designated one")
    ap.add_argument("--sid", default=None, help="id under which the seed is stored (default <property>-<k>)")
    a = ap.parse_args()
    src = a.src or f"/tmp/seed-{a.prop}/_seed"
    patch = os.path.join(src, f"patch{a.k}.diff")
    demo = os.path.join(src, f"demo{a.k}.py")
    note = os.path.join(src, f"note{a.k}.md")
    sid = a.sid or f"{a.prop}-{a.k}"
    stored = os.path.join(ROOT, "seeded", sid)
    if not os.path.exists(patch) and os.path.exists(os.path.join(stored, "patch.diff")):
        # re-evaluation of an already stored seed
        src = stored
        patch, demo, note = (os.path.join(stored, n) for n in ("patch.diff", "demo.py", "note.md"))
    d = tempfile.mkdtemp(prefix=f"rv-seed-{sid}-", dir="/tmp")
    meta = {"id": sid, "property": a.prop, "source": "independent sub-agent given only the property text and a scratch worktree"}
    try:
        subprocess.run(["rsync", "-a", "--exclude", ".git", "--exclude", ".hypothesis", "--exclude", "docs", "--exclude", "__pycache__", "--exclude", "_seed", "/repo/", d + "/"], check=True)
        r = sh(["patch", "-p1", "--no-backup-if-mismatch", "-i", patch], cwd=d)
        meta["patch_applies"] = r.returncode == 0
        if r.returncode != 0:
            print("PATCH DOES NOT APPLY", r.stdout[-500:], r.stderr[-300:])
            return 2
        envp = dict(os.environ, PYTHONPATH=os.path.join(d, "src"), PYTHONDONTWRITEBYTECODE="1")
        envc = dict(os.environ, PYTHONPATH="/repo/src", PYTHONDONTWRITEBYTECODE="1")
        r = sh([PY, "-m", "pytest", "-q", "-p", "no:cacheprovider", "--no-cov", "--timeout=300"], cwd=d, env=envp)
        tail = [ln for ln in r.stdout.strip().splitlines() if ln.strip()][-1:]
        meta["suite_with_patch"] = {"exit": r.returncode, "tail": tail}
        r1 = sh([PY, demo], cwd=src, env=envp, timeout=300)
        r0 = sh([PY, demo], cwd=src, env=envc, timeout=300)
        meta["demo_with_patch_exit"] = r1.returncode
        meta["demo_without_patch_exit"] = r0.returncode
        meta["demo_with_patch_tail"] = (r1.stdout + r1.stderr).strip().splitlines()[-3:]
        confirmed = meta["suite_with_patch"]["exit"] == 0 and r1.returncode != 0 and r0.returncode == 0
        meta["confirmed"] = confirmed
        print(f"{sid}: suite exit={meta['suite_with_patch']['exit']} {tail} | demo with patch exit={r1.returncode} | demo clean exit={r0.returncode} | confirmed={confirmed}")
        checks = a.checks.split(",") if a.checks else (ALL if a.all_checks else [a.prop])
        meta["checks"] = {}
        for prop in checks:
            e2 = dict(os.environ, VERIF_REPO=d)
            r = sh([os.path.join(ROOT, "check"), prop, "--tier", a.tier], cwd=ROOT, env=e2)
            keys = re.findall(r"keys: (\{.*\})", r.stdout)
            meta["checks"][prop] = {"exit": r.returncode, "violation_keys": keys[-1][:400] if keys else "", "tail": (r.stdout.strip().splitlines() or [""])[-1][:200]}
            print(f"   check {prop}: exit={r.returncode} {keys[-1][:200] if keys else ''}")
        meta["what_was_run"] = [
            "rsync /repo -> scratch copy under /tmp; patch -p1 < patch.diff",
            "PYTHONPATH=<copy>/src /venv/bin/python -m pytest -q -p no:cacheprovider --no-cov   (must pass)",
            "PYTHONPATH=<copy>/src /venv/bin/python demo.py (must fail); PYTHONPATH=/repo/src /venv/bin/python demo.py (must pass)",
            f"VERIF_REPO=<copy> ./check <id> --tier {a.tier}   for ids {checks}",
        ]
        if confirmed and not a.no_store:
            out = os.path.join(ROOT, "seeded", sid)
            os.makedirs(out, exist_ok=True)
            if os.path.abspath(src) != os.path.abspath(out):
                shutil.copy(patch, os.path.join(out, "patch.diff"))
                shutil.copy(demo, os.path.join(out, "demo.py"))
                if os.path.exists(note):
                    shutil.copy(note, os.path.join(out, "note.md"))
            if os.path.exists(note):
                meta["needs_to_manifest"] = open(note, encoding="utf-8").read()[:1500]
            prev = {}
            mp = os.path.join(out, "meta.json")
            if os.path.exists(mp):
                prev = json.load(open(mp))
                pc = prev.get("checks", {})
                pc.update(meta["checks"])
                meta["checks"] = pc
            json.dump(meta, open(mp, "w"), indent=1)
    finally:
        shutil.rmtree(d, ignore_errors=True)
    return 0


if __name__ == "__main__":
    sys.exit(main())
