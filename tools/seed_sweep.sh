#!/bin/sh
# Run every check for several VERIF_SEED values; print only non-zero exits.  usage: seed_sweep.sh <tier> <seed>...
cd "$(dirname "$0")/.." || exit 2
tier="$1"; shift
bad=0
for s in "$@"; do
  for f in rv/checks/c[0-9][0-9].py; do
    id=$(basename "$f" .py | tr c C)
    out=$(VERIF_SEED=$s ./check "$id" --tier "$tier" 2>&1); code=$?
    if [ $code -ne 0 ]; then bad=1; echo "seed=$s $id exit=$code"; echo "$out" | grep -E '^(VIOLATION|INCONCLUSIVE|  \[)' | head -6 | cut -c1-400; fi
  done
  echo "seed $s done"
done
exit $bad
